package harness

import (
	"encoding/hex"
	"encoding/json"
	"fmt"

	sdk "github.com/cosmos/cosmos-sdk/types"

	"github.com/irismod/service/types"
)

// Action kinds. Message kinds map 1:1 to the 14 module messages; the "mod_*" kinds are keeper
// calls another module would make; "end_block" ends the current block; "tx" is an atomic
// multi-message transaction.
const (
	KDefine     = "define"
	KBind       = "bind"
	KUpdateBind = "update_binding"
	KSetWithdr  = "set_withdraw"
	KDisable    = "disable"
	KEnable     = "enable"
	KRefundDep  = "refund_deposit"
	KCall       = "call"
	KRespond    = "respond"
	KPause      = "pause"
	KStart      = "start"
	KKill       = "kill"
	KUpdateCtx  = "update_ctx"
	KWithdraw   = "withdraw"
	KEndBlock   = "end_block"
	KTx         = "tx"
	KModCreate  = "mod_create"
	KModPause   = "mod_pause"
	KModStart   = "mod_start"
	KModKill    = "mod_kill"
	KModUpdate  = "mod_update"
	KRestart    = "restart" // zero-height restart: prepare, export, wipe the service store, import the exported genesis
	KSetParams  = "set_params" // a governance parameter change (applied directly, as the params module does)
	KProbe      = "probe" // read-only observation point on a branch of the state (C17 queries, C19 export/import)
)

// Action is a fully concrete, serialisable step of a history.
type Action struct {
	Kind      string   `json:"kind"`
	Signer    string   `json:"signer,omitempty"`   // hex; owner / consumer / author / responding provider
	Service   string   `json:"service,omitempty"`  // service name
	Provider  string   `json:"provider,omitempty"` // hex
	Deposit   *int64   `json:"deposit,omitempty"`  // nil => empty coin list
	DepDenom  string   `json:"dep_denom,omitempty"` // denomination of the deposit ("" = stake)
	Pricing   string   `json:"pricing,omitempty"`
	QoS       uint64   `json:"qos,omitempty"`
	Options   string   `json:"options,omitempty"`
	Withdraw  string   `json:"withdraw_addr,omitempty"` // hex
	Providers []string `json:"providers,omitempty"`     // hex
	Input     string   `json:"input,omitempty"`
	FeeCap    *int64   `json:"fee_cap,omitempty"` // nil => empty coin list
	CapDenom  string   `json:"cap_denom,omitempty"` // denomination of the fee cap ("" = stake)
	Timeout   int64    `json:"timeout,omitempty"`
	Super     bool     `json:"super,omitempty"`
	Repeated  bool     `json:"repeated,omitempty"`
	Freq      uint64   `json:"freq,omitempty"`
	Total     int64    `json:"total,omitempty"`
	Threshold uint32   `json:"threshold,omitempty"`
	ReqID     string   `json:"req_id,omitempty"` // hex
	CtxID     string   `json:"ctx_id,omitempty"` // hex
	Result    string   `json:"result,omitempty"`
	Output    string   `json:"output,omitempty"`
	OutClass  string   `json:"out_class,omitempty"` // harness-side classification of Output: valid|invalid|none
	Desc      string   `json:"desc,omitempty"`      // define: description
	DescHex   string   `json:"desc_hex,omitempty"`  // define: description given as raw bytes (hex), for texts JSON cannot carry
	Tags      []string `json:"tags,omitempty"`
	Schemas   string   `json:"schemas,omitempty"`
	DeltaNs   int64    `json:"delta_ns,omitempty"` // end_block: block time advance
	Msgs      []Action `json:"msgs,omitempty"`     // tx
	Tag       string   `json:"tag,omitempty"`      // generator annotation (e.g. "boundary")
	Extra     string   `json:"extra,omitempty"`    // probe payload (e.g. the queries to ask)
	Params    *Config  `json:"params,omitempty"`   // set_params: the new parameter values (funding / module service ignored)
	// symbolic references: "the n-th context created / request seen in this history". When present they
	// take precedence over ctx_id / req_id, so a replay stays meaningful after steps have been removed
	// (transaction hashes, and with them all IDs, shift).
	CtxRef *int `json:"ctx_ref,omitempty"`
	// Module: mod_create in the name of this host module ("" = the emulated consumer module)
	Module string `json:"module,omitempty"`
	// TxRef: the message targets the context created by message number TxRef of the same transaction
	TxRef *int `json:"tx_ref,omitempty"`
	ReqRef *int `json:"req_ref,omitempty"`
}

func (a Action) String() string {
	bz, _ := json.Marshal(a)
	return string(bz)
}

func hx(b []byte) string { return hex.EncodeToString(b) }

func unhx(s string) []byte {
	b, err := hex.DecodeString(s)
	if err != nil {
		panic(fmt.Sprintf("harness: bad hex %q", s))
	}
	return b
}

func addr(s string) sdk.AccAddress {
	if s == "" {
		return nil
	}
	return sdk.AccAddress(unhx(s))
}

func addrs(ss []string) []sdk.AccAddress {
	if ss == nil {
		return nil
	}
	out := make([]sdk.AccAddress, len(ss))
	for i, s := range ss {
		out[i] = addr(s)
	}
	return out
}

func coinsOf(p *int64) sdk.Coins {
	if p == nil {
		return nil
	}
	// built literally (not through NewCoins) so that zero amounts reach ValidateBasic as sent
	return sdk.Coins{sdk.Coin{Denom: "stake", Amount: sdk.NewInt(*p)}}
}

// depOf: the deposit of a bind / update / enable, in the denomination the action names
func (a Action) depOf() sdk.Coins {
	c := coinsOf(a.Deposit)
	if c != nil && a.DepDenom != "" {
		c[0].Denom = a.DepDenom
	}
	return c
}

// capOf: the fee cap of a call / context update, in the denomination the action names
func (a Action) capOf() sdk.Coins {
	c := coinsOf(a.FeeCap)
	if c != nil && a.CapDenom != "" {
		c[0].Denom = a.CapDenom
	}
	return c
}

func (a Action) moduleName() string {
	if a.Module != "" {
		return a.Module
	}
	return VMod
}

func i64(v int64) *int64 { return &v }

// IsMsg reports whether the action is a single module message.
func (a Action) IsMsg() bool {
	switch a.Kind {
	case KDefine, KBind, KUpdateBind, KSetWithdr, KDisable, KEnable, KRefundDep, KCall, KRespond,
		KPause, KStart, KKill, KUpdateCtx, KWithdraw:
		return true
	}
	return false
}

// Msg builds the sdk.Msg of a message action.
func (a Action) Msg() sdk.Msg {
	switch a.Kind {
	case KDefine:
		desc := a.Desc
		if a.DescHex != "" {
			desc = string(unhx(a.DescHex))
		}
		return types.NewMsgDefineService(a.Service, desc, a.Tags, addr(a.Signer), "", a.Schemas)
	case KBind:
		return types.NewMsgBindService(a.Service, addr(a.Provider), a.depOf(), a.Pricing, a.QoS, a.Options, addr(a.Signer))
	case KUpdateBind:
		return types.NewMsgUpdateServiceBinding(a.Service, addr(a.Provider), a.depOf(), a.Pricing, a.QoS, a.Options, addr(a.Signer))
	case KSetWithdr:
		return types.NewMsgSetWithdrawAddress(addr(a.Signer), addr(a.Withdraw))
	case KDisable:
		return types.NewMsgDisableServiceBinding(a.Service, addr(a.Provider), addr(a.Signer))
	case KEnable:
		return types.NewMsgEnableServiceBinding(a.Service, addr(a.Provider), a.depOf(), addr(a.Signer))
	case KRefundDep:
		return types.NewMsgRefundServiceDeposit(a.Service, addr(a.Provider), addr(a.Signer))
	case KCall:
		return types.NewMsgCallService(a.Service, addrs(a.Providers), addr(a.Signer), a.Input, a.capOf(),
			a.Timeout, a.Super, a.Repeated, a.Freq, a.Total)
	case KRespond:
		return types.NewMsgRespondService(unhx(a.ReqID), addr(a.Signer), a.Result, a.Output)
	case KPause:
		return types.NewMsgPauseRequestContext(unhx(a.CtxID), addr(a.Signer))
	case KStart:
		return types.NewMsgStartRequestContext(unhx(a.CtxID), addr(a.Signer))
	case KKill:
		return types.NewMsgKillRequestContext(unhx(a.CtxID), addr(a.Signer))
	case KUpdateCtx:
		return types.NewMsgUpdateRequestContext(unhx(a.CtxID), addrs(a.Providers), a.capOf(), a.Timeout, a.Freq, a.Total, addr(a.Signer))
	case KWithdraw:
		return types.NewMsgWithdrawEarnedFees(addr(a.Signer), addr(a.Provider))
	}
	panic("harness: not a message action: " + a.Kind)
}
