package harness

import (
	"crypto/sha256"
	"os"
	"testing"

	"pgregory.net/rapid"
)

// Native coverage-guided fuzz targets (thorough tier). The input bytes are the entropy source
// of the same rapid generators (rapid.MakeFuzz), the oracle is the same check; a crasher is
// saved by the Go fuzzer under testdata/fuzz/<target>/ and the concrete failing case is also
// written as a replay file.

func fuzzEnv(prop string) *runEnv {
	return &runEnv{prop: prop, tier: "fuzz", seed: uint64(os.Getpid()), stats: NewStats(prop), known: LoadKnown(),
		replayDir: envOr("VERIF_REPLAY_DIR", "../replays")}
}

// seedCorpus adds pseudo-random inputs of several sizes: every rapid draw consumes 8 input bytes
// and an exhausted input is skipped, so useful inputs are kilobytes long.
func seedCorpus(f *testing.F, sizes ...int) {
	for i, n := range sizes {
		buf := make([]byte, 0, n)
		h := sha256.Sum256([]byte{byte(i), byte(n), byte(n >> 8)})
		for len(buf) < n {
			buf = append(buf, h[:]...)
			h = sha256.Sum256(h[:])
		}
		f.Add(buf[:n])
	}
}

func fuzzStateless(f *testing.F, name string) {
	sp := statelessProps[name]
	env := fuzzEnv(sp.Prop)
	seedCorpus(f, 512, 2048, 4096, 8192)
	f.Fuzz(rapid.MakeFuzz(env.statelessProperty(sp)))
}

func FuzzC07Price(f *testing.F) { fuzzStateless(f, "price") }
func FuzzC18Ids(f *testing.F)   { fuzzStateless(f, "ids") }
func FuzzC18Keys(f *testing.F)  { fuzzStateless(f, "keys") }
func FuzzC18Scans(f *testing.F) { fuzzStateless(f, "scans") }

func FuzzC20History(f *testing.F) {
	env := fuzzEnv("C20")
	seedCorpus(f, 16384, 32768, 65536, 65536, 131072)
	f.Fuzz(rapid.MakeFuzz(env.historyProperty))
}
