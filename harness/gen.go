package harness

import (
	"os"
	"fmt"
	"sort"
	"strings"
	"time"

	"pgregory.net/rapid"

	authtypes "github.com/cosmos/cosmos-sdk/x/auth/types"

	"github.com/irismod/service/types"
)

// ---------------------------------------------------------------------------------------------
// pools

func rep(b byte, n int) []byte {
	out := make([]byte, n)
	for i := range out {
		out[i] = b
	}
	return out
}

var (
	// signer addresses: always 20 bytes (derived from public keys on a chain)
	Signers = []string{
		hx(rep(0xa0, 20)), hx(rep(0xb1, 20)),
		hx(append(rep(0xc2, 19), 0x00)), // ends with a zero byte
		hx(append(rep(0xd3, 19), 't')),  // ends with a letter of the denom "stake"
		hx(rep(0xe4, 20)),
	}
	// non-signer addresses (provider / withdrawal fields): any non-empty byte string.
	// Built as prefixes and extensions of signer addresses and of each other.
	NonSigners = []string{
		hx(rep(0xa0, 10)),                               // prefix of signer 0
		hx(append(rep(0xa0, 20), 0x00, 0x07)),           // extension of signer 0, contains 0x00
		hx(rep(0xb1, 1)),                                // 1 byte, prefix of signer 1
		hx(append(rep(0xb1, 20), []byte("stake")...)),   // signer 1 followed by the denom
		hx(rep(0xee, 32)),                               // 32 bytes
		hx(rep(0xee, 20)),                               // 20-byte prefix of the previous
		hx(append([]byte{0x00}, rep(0xa0, 19)...)),      // starts with a zero byte (the separator of several store keys)
		hx(append([]byte("b"), rep(0xb1, 20)...)),       // the letter that turns service "a" into "ab", then signer 1
	}
	// "Ab" differs from "ab" only by case: names are case-sensitive, the two are different services
	ServiceNames = []string{"a", "ab", "ab-c", "svc", "Ab"}

	SchemasOK = `{"input":{"type":"object"},"output":{"type":"object"}}`
	InputOK   = `{"header":{},"body":{}}`
)

func AllAddrs() []string { return append(append([]string{}, Signers...), NonSigners...) }

// response shapes with the harness's own classification of the output
type RespShape struct {
	Result, Output, Class string
}

var RespShapes = []RespShape{
	{`{"code":200,"message":""}`, `{"header":{},"body":{}}`, "valid"},
	{`{"code":200,"message":"ok"}`, `{"header":{}}`, "valid"},
	{`{"code":200,"message":""}`, `{}`, "invalid"},
	{`{"code":200,"message":""}`, `[]`, "invalid"},
	{`{"code":200,"message":""}`, `{"header":1}`, "invalid"},
	{`{"code":200,"message":""}`, `{"header":{},"body":1}`, "invalid"},
	{`{"code":400,"message":"bad"}`, ``, "none"},
	{`{"code":500,"message":"err"}`, ``, "none"},
	// the published output schema, read closely: "header" (an object) is required, "body" if present is an
	// object, further properties are allowed, property names are case-sensitive
	{`{"code":200,"message":""}`, `{"header":{},"body":null}`, "invalid"},
	{`{"code":200,"message":""}`, `{"Header":{}}`, "invalid"},
	{`{"code":200,"message":""}`, `{"header":null}`, "invalid"},
	{`{"code":200,"message":""}`, `{"header":{},"body":"x"}`, "invalid"},
	{`{"code":200,"message":""}`, `{"header":{},"Body":"x"}`, "valid"},
	{`{"code":200,"message":""}`, `{"header":{},"body":{},"extra":[1]}`, "valid"},
}

// ModOnlyShapes: answers only a module service can give (a message with them fails stateless validation):
// a non-success result with a malformed output - a malformed output all the same - and a success
// result without any output - no output, hence no malformed output
var ModOnlyShapes = []RespShape{
	{`{"code":500,"message":"err"}`, `{}`, "invalid"},
	{`{"code":200,"message":""}`, ``, "none"},
}

// ---------------------------------------------------------------------------------------------
// focus: per-property generator bias

type Focus struct {
	Prop       string
	MaxSteps   int
	W          map[string]int // weight multipliers per action kind (default 1)
	WrongSign  int            // percent of deliberately wrong signers
	ModSvcPct  int            // percent of cases with a module service
	Boundary   int            // percent of cases allowed to draw numeric boundary values (known finding trigger)
	PrefixProv int            // percent preference for prefix-related provider addresses
	PreludePct int            // percent of cases that open with a productive prelude
	RestartW   int            // weight of the zero-height restart action (0 = never)
	ParamChangeW int          // weight of a governance parameter change (0 = never)
	DenomChangePct int        // percent of the parameter changes that move the base denomination (0 = never)
	ForeignPricePct int       // percent of the prices quoted in the token that is not the base denomination, when the host runs an exchange-rate service (an eighth of it otherwise; 0 = never)
	ExchangePct int           // percent of those cases whose host runs an exchange-rate service
	ForeignCasePct int        // percent of the cases that quote prices in the second token
	IllegalPricingPct int     // percent of the pricing texts of binds / updates that break the promotion rules (must be rejected)
	Only20Pct  int            // percent of cases restricted to 20-byte addresses everywhere (avoids a listed finding's trigger)
	only20     bool           // drawn per case
	foreign    bool           // drawn per case: prices in the second token (and no base-denomination change)
	multi      bool           // drawn per case: accounts hold a second coin as well
	MarathonPct int           // percent of the cases that open with a feed taken past its 255th batch
	BigPricePct int           // percent of the prices of binds / updates that sit where price x multiple leaves the 64-bit range
	MultiPct   int            // percent of the cases in which accounts hold a second coin (invariant-only properties)
}

func FocusFor(prop string, tier string) Focus {
	f := Focus{Prop: prop, MaxSteps: 32, W: map[string]int{}, WrongSign: 15, ModSvcPct: 15, Boundary: 0, PrefixProv: 20, PreludePct: 50, RestartW: 1, ParamChangeW: 1, DenomChangePct: 20, ForeignPricePct: 40, ExchangePct: 70, ForeignCasePct: 25, IllegalPricingPct: 3}
	if tier == "thorough" {
		f.MaxSteps = 70
	}
	mul := func(m int, ks ...string) {
		for _, k := range ks {
			f.W[k] = m
		}
	}
	switch prop {
	case "C01", "C02":
		mul(2, KRespond, KWithdraw, KCall)
		f.MultiPct = 20
	case "C03", "C14":
		mul(3, KBind, KUpdateBind, KDisable, KEnable, KRefundDep)
		f.ModSvcPct = 5
		if prop == "C03" {
			f.MultiPct = 15
		}
		if prop == "C14" {
			// "under the parameters in force": a governance change may leave existing bindings below the
			// new minimum; the oracle tolerates exactly those while nothing touches them
			f.ParamChangeW = 2
			f.BigPricePct = 4
		}
	case "C04":
		mul(2, KCall, KRespond)
		f.ModSvcPct = 25
	case "C05":
		f.MultiPct = 15
		f.WrongSign = 45
		f.ModSvcPct = 30
		mul(2, KModCreate)
	case "C06", "C07":
		mul(2, KCall, KUpdateBind, KUpdateCtx, KRespond)
		if prop == "C07" {
			f.IllegalPricingPct = 10
		}
	case "C08":
		mul(3, KRespond)
		mul(2, KCall)
		f.MultiPct = 15
	case "C09", "C10", "C11":
		mul(3, KPause, KStart, KKill, KUpdateCtx)
		mul(2, KCall, KModPause, KModStart)
		f.MultiPct = 15
		if prop == "C11" {
			f.Boundary = 10
		}
		if prop == "C10" {
			// zero-height restarts are part of C10's histories again (third session): the oracle forgets the
			// batch in flight and the one-shot clause for contexts that lived through one (DESIGN.md 8.6) and
			// keeps the rest - above all the total of a repeated context, which survives with the counter
			f.RestartW = 1
		}
	case "C12":
		mul(4, KModCreate)
		mul(2, KRespond, KModPause, KModStart, KModKill, KModUpdate)
		f.MultiPct = 15
	case "C13":
		mul(4, KWithdraw)
		mul(3, KRespond)
		mul(2, KSetWithdr, KCall)
		f.PrefixProv = 50
		f.PreludePct = 75
		f.ModSvcPct = 30
		f.MultiPct = 15
	case "C15":
		mul(3, KDefine, KBind)
		mul(2, KUpdateBind)
		f.MultiPct = 15
	case "C16":
		mul(2, KCall, KRespond, KKill, KPause)
		f.MultiPct = 15
	case "C17", "C18":
		f.MultiPct = 15
	case "C19":
		f.Only20Pct = 60
		f.MultiPct = 15
	case "C20":
		f.MultiPct = 20
		f.Boundary = 10
		f.ModSvcPct = 30
		mul(2, KWithdraw, KRespond)
	}
	switch prop {
	case "C08", "C11", "C16", "C17", "C18", "C12":
		f.MarathonPct = 1
	}
	if v := os.Getenv("VERIF_MARATHONPCT"); v != "" { // experiments only
		fmt.Sscan(v, &f.MarathonPct)
	}
	if v := os.Getenv("VERIF_MULTIPCT"); v != "" { // experiments only
		fmt.Sscan(v, &f.MultiPct)
	}
	if v := os.Getenv("VERIF_DENOMPCT"); v != "" {
		fmt.Sscan(v, &f.DenomChangePct)
		f.ParamChangeW = 4
	}
	return f
}

// ---------------------------------------------------------------------------------------------
// configuration

func GenConfig(t *rapid.T, f Focus) Config {
	c := Config{}
	c.Tax = rapid.SampledFrom([]string{"0.1", "0", "0.5", "0.333333", "0.999999"}).Draw(t, "tax")
	c.Slash = rapid.SampledFrom([]string{"0.5", "0.001", "0", "0.1", "1"}).Draw(t, "slash")
	c.MaxTimeout = rapid.SampledFrom([]int64{5, 1, 2, 3, 20}).Draw(t, "max_timeout")
	md := rapid.SampledFrom([]int64{100, -1, 1, 6000}).Draw(t, "min_deposit")
	if md >= 0 {
		c.MinDeposit = i64(md)
	}
	c.Multiple = rapid.SampledFrom([]int64{2, 1, 10, 200}).Draw(t, "multiple")
	c.ArbitrationNs = rapid.SampledFrom([]int64{1, 1e9, 5e9, 3600e9}).Draw(t, "arbitration")
	c.ComplaintNs = rapid.SampledFrom([]int64{1, 1e9, 5e9, 3600e9}).Draw(t, "complaint")
	if pct(t, "century_periods", 4) {
		// every positive period is legal: two periods of ~150 years each (their sum exceeds what fits in one Duration)
		c.ArbitrationNs, c.ComplaintNs = yearsNs(150), yearsNs(150)
	}
	c.Funding = map[string]int64{}
	for i, s := range Signers {
		var opts []int64
		if i < 2 {
			opts = []int64{1e12, 1e6, 1000}
		} else {
			opts = []int64{1e6, 0, 1, 50, 1000, 1e12}
		}
		c.Funding[s] = rapid.SampledFrom(opts).Draw(t, fmt.Sprintf("fund%d", i))
	}
	if f.multi {
		c.FundingPoint = map[string]int64{}
		for i, s := range Signers {
			opts := []int64{1e6, 1e12, 50, 0}
			if i < 2 {
				opts = []int64{1e12, 1e9} // the owners of the prelude can always cover a deposit
			}
			c.FundingPoint[s] = rapid.SampledFrom(opts).Draw(t, fmt.Sprintf("fundp%d", i))
		}
	}
	if f.foreign && pct(t, "exchange_service", f.ExchangePct) {
		c.ExchangeRate = "1"
		if pct(t, "rate_not_one", 40) {
			rates := []string{"2", "0.5", "3", "unavailable", "0", "malformed", "0.000001"}
			if f.Prop == "C07" {
				// C07 states the fee in terms of the published price alone: only the rate 1 keeps it literally true
				rates = []string{"unavailable", "malformed"}
			}
			c.ExchangeRate = pick(t, "rate", rates)
		}
	}
	if pct(t, "start_height_at_byte_boundary", 12) {
		c.StartHeight = pick(t, "start_height", []int64{250, 65530, 4294967290, 240, 16777210})
	}
	if f.Prop == "C09" && pct(t, "reactive_module", 30) {
		c.Reactive = true
		c.ReactSiblings = pct(t, "reactive_module_kills_siblings", 50)
	}
	if f.Prop == "C09" && pct(t, "reacting_in_response_callback", 25) {
		c.ReactResp = pick(t, "react_resp", []string{"kill", "pause"})
	}
	if (f.Prop == "C10" || f.Prop == "C11" || f.Prop == "C09") && c.ReactResp == "" && pct(t, "restarting_in_response_callback", 10) {
		c.ReactResp = "start" // a module that pauses its context while a batch is in flight and resumes it from the response callback
	}
	switch f.Prop {
	case "C01", "C02", "C10", "C11", "C12", "C16", "C20":
		// the same reacting module in a tenth of the cases of the properties about money, scheduling,
		// bookkeeping and clean-up: whatever the module does to its context from inside the callback,
		// their statements keep holding
		if pct(t, "reacting_in_response_callback", 10) {
			c.ReactResp = pick(t, "react_resp", []string{"kill", "pause"})
		}
	}
	if pct(t, "modsvc?", f.ModSvcPct) {
		base := rapid.SampledFrom([]int64{1, 0, 3, 10}).Draw(t, "modprice")
		dep := c.MinDepositFor(base) + rapid.SampledFrom([]int64{0, 1, 1000}).Draw(t, "moddepx")
		n := rapid.IntRange(1, 3).Draw(t, "modscript")
		var script []ModOutcome
		shapes := RespShapes
		if f.Prop == "C04" || f.Prop == "C20" {
			shapes = append(append([]RespShape{}, RespShapes...), ModOnlyShapes...)
		}
		for i := 0; i < n; i++ {
			sh := rapid.SampledFrom(shapes).Draw(t, "modout")
			script = append(script, ModOutcome{Result: sh.Result, Output: sh.Output, Class: sh.Class})
		}
		c.ModSvc = &ModSvcCfg{
			Provider: modProv(t, f),
			Owner:    Signers[4],
			Pricing:  fmt.Sprintf(`{"price":"%dstake"}`, base),
			Deposit:  dep,
			QoS:      1,
			Script:   script,
		}
	}
	return c
}

func modProv(t *rapid.T, f Focus) string {
	if f.only20 {
		return hx(rep(0x5d, 20))
	}
	// 20 bytes unrelated; 12-byte prefix of signer 0; signer 0 extended by a letter (so that "<rest>stake" reads like a denom)
	return rapid.SampledFrom([]string{hx(rep(0x5d, 20)), hx(rep(0xa0, 12)), hx(append(rep(0xa0, 20), 'x')), NonSigners[1]}).Draw(t, "modprov")
}

// ---------------------------------------------------------------------------------------------
// generator state: what the generator knows about the world (all derived from observations)

type GenState struct {
	Cfg     Config
	F       Focus
	Snap    *Snapshot
	CtxIDs  []string // every context ever created, in creation order
	ReqIDs  []string // every request ever seen, in first-seen order
	reqSeen map[string]bool
}

func NewGenState(cfg Config, f Focus, s *Snapshot) *GenState {
	return &GenState{Cfg: cfg, F: f, Snap: s, reqSeen: map[string]bool{}}
}

// DrawCaseFlags draws the per-case generator switches
func (f *Focus) DrawCaseFlags(t *rapid.T) {
	f.only20 = pct(t, "only_20_byte_addresses", f.Only20Pct)
	// a case either quotes some prices in the second token (with or without an exchange-rate
	// service on the host) or lets governance move the base denomination, never both: what the
	// minimum deposit of a "point" price means once "point" is the base denomination, with every
	// deposit in "stake", is not something the properties settle
	f.foreign = pct(t, "foreign_price_case", f.ForeignCasePct)
	// a third kind of case (invariant-only properties): a second coin really exists, and governance
	// is likely to move the base denomination to it, after which deposits, fees and earnings are
	// made in it next to the records made before
	if pct(t, "two_coin_case", f.MultiPct) {
		f.multi, f.foreign = true, false
		f.DenomChangePct, f.ParamChangeW = 70, 4
	}
}

func (g *GenState) Observe(r *StepRec) {
	g.Snap = r.Post
	if r.OK && r.Action.Kind == KSetParams && r.Action.Params != nil {
		p := r.Action.Params
		g.Cfg.Tax, g.Cfg.Slash, g.Cfg.MaxTimeout, g.Cfg.MinDeposit, g.Cfg.Multiple = p.Tax, p.Slash, p.MaxTimeout, p.MinDeposit, p.Multiple
		g.Cfg.ArbitrationNs, g.Cfg.ComplaintNs = p.ArbitrationNs, p.ComplaintNs
		g.Cfg.BaseDenom = p.BaseDenom
	}
	if r.OK {
		g.CtxIDs = append(g.CtxIDs, r.CtxIDs...)
	}
	for _, id := range sortedKeys(r.Post.Reqs) {
		if !g.reqSeen[id] {
			g.reqSeen[id] = true
			g.ReqIDs = append(g.ReqIDs, id)
		}
	}
}

func yearsNs(y int64) int64 { return y * 365 * 24 * 3600 * 1e9 }

func fmtTime(ns int64) string { return time.Unix(0, ns).UTC().Format(time.RFC3339Nano) }

// mostly short discounts (their products are exact in the chain's 18-decimal type); one with the full 18 decimals
var discounts = []string{"0.5", "0.9", "0.3", "0.333333333333333333", "0.1", "0.000001", "0.999999", "0.333333"}

// GenPricing draws a pricing text accepted by the module's schema and contract.
func GenPricing(t *rapid.T, nowNs int64) string { return GenPricingIn(t, nowNs, "stake") }

// genPriceDenom: the token a new price is quoted in. Prices in the other token are drawn only in
// the foci that model them (ForeignPricePct): often when the host runs an exchange-rate service,
// rarely when it does not (such a provider cannot be priced and never qualifies).
// genDepDenom: deposits are sent in the base denomination in force where a second coin exists
func (g *GenState) genDepDenom(t *rapid.T) string {
	if !g.F.multi {
		return ""
	}
	bd := g.Cfg.baseDenom()
	if pct(t, "deposit_in_other_coin", 8) {
		if bd == "stake" {
			return "point"
		}
		return ""
	}
	if bd == "stake" {
		return ""
	}
	return bd
}

func (g *GenState) genPriceDenom(t *rapid.T) string {
	if g.F.multi {
		// prices follow the base denomination in force (mostly)
		bd := g.Cfg.baseDenom()
		if pct(t, "price_in_other_coin", 12) {
			if bd == "stake" {
				return "point"
			}
			return "stake"
		}
		return bd
	}
	if !g.F.foreign {
		if pct(t, "price_in_main_unit", 12) {
			return "kstake"
		}
		return "stake"
	}
	if pct(t, "foreign_price", g.F.ForeignPricePct) {
		return "point"
	}
	return "stake"
}

// illegalPricingSometimes: 3 % (10 % in the focus of C07) of the pricing texts sent with a bind / update break the
// published rules for promotions (a discount outside (0,1) or with a trailing zero, a window
// that ends before it starts or overlaps its predecessor, thresholds that decrease, a zero
// threshold). The module must reject every one of them; if one gets through, the price and
// validity oracles see its effects.
// close to legal: above 1 with a legal-looking shape, exactly 0 and 1, negative, trailing zero
var badDiscounts = []string{"1.5", "1.1", "2.5", "9.9", "1", "0", "0.0", "-0.5", "0.50", "1.0", "10.5"}

func illegalPricingSometimes(t *rapid.T, pricing string, nowNs int64, percent int) string {
	if !pct(t, "illegal_pricing", percent) {
		return pricing
	}
	price := `"price":"10stake"`
	if i := strings.Index(pricing, `"price":"`); i >= 0 {
		if j := strings.Index(pricing[i+9:], `"`); j >= 0 {
			price = pricing[i : i+9+j+1]
		}
	}
	switch pick(t, "illegal_kind", []string{"discount", "discount_vol", "window_reversed", "window_overlap", "volume_decreasing", "volume_zero"}) {
	case "discount":
		d := pick(t, "bad_discount", badDiscounts)
		return fmt.Sprintf(`{%s,"promotions_by_time":[{"start_time":"%s","end_time":"%s","discount":"%s"}]}`, price, fmtTime(nowNs-10e9), fmtTime(nowNs+3600e9), d)
	case "discount_vol":
		d := pick(t, "bad_discount", badDiscounts)
		return fmt.Sprintf(`{%s,"promotions_by_volume":[{"volume":1,"discount":"%s"}]}`, price, d)
	case "window_reversed":
		return fmt.Sprintf(`{%s,"promotions_by_time":[{"start_time":"%s","end_time":"%s","discount":"0.5"}]}`, price, fmtTime(nowNs+5e9), fmtTime(nowNs-5e9))
	case "window_overlap":
		return fmt.Sprintf(`{%s,"promotions_by_time":[{"start_time":"%s","end_time":"%s","discount":"0.5"},{"start_time":"%s","end_time":"%s","discount":"0.9"}]}`,
			price, fmtTime(nowNs-10e9), fmtTime(nowNs+10e9), fmtTime(nowNs), fmtTime(nowNs+20e9))
	case "volume_decreasing":
		return fmt.Sprintf(`{%s,"promotions_by_volume":[{"volume":3,"discount":"0.9"},{"volume":1,"discount":"0.5"}]}`, price)
	default:
		return fmt.Sprintf(`{%s,"promotions_by_volume":[{"volume":0,"discount":"0.5"}]}`, price)
	}
}

// GenPricingIn draws a pricing text quoted in the given token.
func GenPricingIn(t *rapid.T, nowNs int64, denom string) string {
	price := rapid.SampledFrom([]string{"10", "1", "0", "2", "20", "3", "0.5", "1.9", "100", "999", "1000000"}).Draw(t, "price")
	if denom == "kstake" {
		// the same range of prices, quoted in the main unit (1 kstake = 1000 stake)
		price = rapid.SampledFrom([]string{"0.01", "0.001", "0", "0.002", "0.02", "0.003", "0.0005", "0.0019", "0.1", "0.999", "1", "1000"}).Draw(t, "kprice")
	}
	var sb strings.Builder
	fmt.Fprintf(&sb, `{"price":"%s%s"`, price, denom)
	nt := rapid.SampledFrom([]int{0, 0, 1, 2, 3}).Draw(t, "n_time")
	if pct(t, "window_beyond_64bit_nanoseconds", 5) {
		// one promotion window whose start or end lies where nanoseconds since 1970 leave 64 bits
		// ("until further notice": 9999-12-31; "since ever": year 1)
		nt = 0
		st := rapid.SampledFrom([]string{fmtTime(nowNs - 10e9), "0001-01-01T00:00:00Z", fmtTime(nowNs + 5e9), "1500-06-01T00:00:00Z"}).Draw(t, "far_start")
		en := rapid.SampledFrom([]string{"9999-12-31T23:59:59Z", fmtTime(nowNs + 10e9), "2300-01-01T00:00:00Z", "9999-12-31T23:59:59Z"}).Draw(t, "far_end")
		fmt.Fprintf(&sb, `,"promotions_by_time":[{"start_time":"%s","end_time":"%s","discount":"%s"}]`, st, en, rapid.SampledFrom(discounts).Draw(t, "dt"))
	}
	if nt > 0 {
		sb.WriteString(`,"promotions_by_time":[`)
		cur := nowNs + rapid.SampledFrom([]int64{-10e9, 0, 1, 5e9, 10e9}).Draw(t, "t0")
		for i := 0; i < nt; i++ {
			if i > 0 {
				sb.WriteString(",")
				cur += rapid.SampledFrom([]int64{0, 1, 5e9}).Draw(t, "gap")
			}
			end := cur + rapid.SampledFrom([]int64{5e9, 1, 10e9, 3600e9}).Draw(t, "len")
			fmt.Fprintf(&sb, `{"start_time":"%s","end_time":"%s","discount":"%s"}`, fmtTime(cur), fmtTime(end),
				rapid.SampledFrom(discounts).Draw(t, "dt"))
			cur = end
		}
		sb.WriteString("]")
	}
	nv := rapid.SampledFrom([]int{0, 0, 1, 2, 3}).Draw(t, "n_vol")
	if nv > 0 {
		sb.WriteString(`,"promotions_by_volume":[`)
		vol := uint64(0)
		for i := 0; i < nv; i++ {
			if i > 0 {
				sb.WriteString(",")
			}
			vol += uint64(rapid.IntRange(1, 2).Draw(t, "vstep"))
			fmt.Fprintf(&sb, `{"volume":%d,"discount":"%s"}`, vol, rapid.SampledFrom(discounts).Draw(t, "dv"))
		}
		sb.WriteString("]")
	}
	sb.WriteString("}")
	return sb.String()
}

// interesting instants of the current world: promotion window edges, refundable instants
func (g *GenState) interestingInstants() []int64 {
	var out []int64
	s := g.Snap
	for _, bk := range sortedKeys(s.Binds) {
		b := s.Binds[bk]
		if rp, err := ParseRefPricing(b.Pricing); err == nil {
			for _, w := range rp.ByTime {
				out = append(out, w.StartNs, w.EndNs)
			}
		}
		if !b.Available && !b.DisabledTime.IsZero() && b.DisabledTime.Unix() > 0 && g.Cfg.ArbitrationNs < yearsNs(100) {
			out = append(out, b.DisabledTime.UnixNano()+g.Cfg.ArbitrationNs+g.Cfg.ComplaintNs)
		}
	}
	sort.Slice(out, func(i, j int) bool { return out[i] < out[j] })
	return out
}

func (g *GenState) genDelta(t *rapid.T) int64 {
	now := g.Snap.TimeNs
	opts := []int64{5e9, 1, 1e9, 3600e9}
	for _, inst := range g.interestingInstants() {
		for _, off := range []int64{-1, 0, 1} {
			if d := inst + off - now; d > 0 && d < 4000e9 {
				opts = append(opts, d)
			}
		}
	}
	if len(opts) > 16 {
		opts = opts[:16]
	}
	return rapid.SampledFrom(opts).Draw(t, "delta")
}

// ---------------------------------------------------------------------------------------------
// argument helpers

func (g *GenState) bindingsList() []types.ServiceBinding {
	var out []types.ServiceBinding
	for _, k := range sortedKeys(g.Snap.Binds) {
		out = append(out, g.Snap.Binds[k])
	}
	return out
}

func (g *GenState) definedServices() []string { return sortedKeys(g.Snap.Defs) }

func pick[T any](t *rapid.T, label string, xs []T) T {
	return rapid.SampledFrom(xs).Draw(t, label)
}

// uniform draws 0..n-1 (n <= 1024) from single bits: rapid's integer generators are deliberately
// biased towards small values and range bounds, which distorts weighted choices.
func uniform(t *rapid.T, label string, n int) int {
	x := 0
	for i := 0; i < 10; i++ {
		if rapid.Bool().Draw(t, label) {
			x |= 1 << i
		}
	}
	return x * n >> 10
}

// pct is true with probability p/100; an all-zero bit stream (the shrinker's target) gives false.
func pct(t *rapid.T, label string, p int) bool {
	if p <= 0 {
		return false
	}
	return uniform(t, label, 100) >= 100-p
}

// signer: the rightful one, or (WrongSign %) any signer
func (g *GenState) signerFor(t *rapid.T, rightful string) string {
	if rightful == "" || len(rightful) != 40 || pct(t, "wrong_signer", g.F.WrongSign) {
		return pick(t, "signer", Signers)
	}
	return rightful
}

func (g *GenState) genService(t *rapid.T, wantDefined bool) string {
	defs := g.definedServices()
	if wantDefined && len(defs) > 0 && !pct(t, "undefined_svc", 5) {
		return pick(t, "svc", defs)
	}
	return pick(t, "svc_any", ServiceNames)
}

func (g *GenState) genProviderAddr(t *rapid.T) string {
	if !g.F.only20 && pct(t, "prefix_prov", g.F.PrefixProv) {
		return pick(t, "nonsigner", NonSigners)
	}
	return pick(t, "prov_signer", Signers)
}

func (g *GenState) basePriceOf(b types.ServiceBinding) int64 {
	rp, err := ParseRefPricing(b.Pricing)
	if err != nil {
		return 0
	}
	return g.Cfg.InBase(rp)
}

// bigPriceSometimes: prices that fit 64 bits while their product with a deposit multiple does not
// (2^62; just above 2^64/200 and 2^64/10, where a wrapped product is a small positive number). No
// account can cover the minimum deposit of such a price: binding or enabling at it must fail.
func (g *GenState) bigPriceSometimes(t *rapid.T, pricing string) string {
	if g.F.BigPricePct == 0 || g.F.multi || g.F.foreign || !pct(t, "big_price", g.F.BigPricePct) {
		return pricing
	}
	return fmt.Sprintf(`{"price":"%sstake"}`, pick(t, "big_price_value", []string{"92233720368547759", "1844674407370955162", "4611686018427387904", "92233720368547758"}))
}

func (g *GenState) genDepositAround(t *rapid.T, threshold int64, have int64) *int64 {
	if threshold > 1<<60 {
		// nothing covers it: send an ordinary amount
		threshold = pick(t, "deposit_for_big_price", []int64{6000, 1000, 1e6, 1e12})
	}
	need := threshold - have
	opts := []int64{need, need + 1, 2*threshold + 7, need - 1, 1}
	v := pick(t, "deposit", opts)
	if pct(t, "deposit_empty", 4) {
		return nil
	}
	if pct(t, "deposit_zero", 2) {
		return i64(0)
	}
	if v <= 0 {
		v = 1
	}
	return i64(v)
}

func (g *GenState) genProvidersList(t *rapid.T, service string) []string {
	// prefer providers bound to the service
	var bound []string
	for _, b := range g.bindingsList() {
		if b.ServiceName == service {
			bound = append(bound, hx(b.Provider))
		}
	}
	all := AllAddrs()
	if g.F.only20 {
		all = append([]string{}, Signers...)
	}
	if g.Cfg.ModSvc != nil && (!g.F.only20 || len(g.Cfg.ModSvc.Provider) == 40) {
		all = append(all, g.Cfg.ModSvc.Provider)
	}
	n := pick(t, "n_providers", []int{1, 2, 3, 1, 2, 4, 10})
	seen := map[string]bool{}
	var out []string
	for i := 0; i < n; i++ {
		var p string
		if len(bound) > 0 && !pct(t, "unbound_provider", 20) {
			p = pick(t, "bound_prov", bound)
		} else {
			p = pick(t, "any_prov", all)
		}
		if !seen[p] {
			seen[p] = true
			out = append(out, p)
		}
	}
	if pct(t, "dup_provider", 2) && len(out) > 0 {
		out = append(out, out[0])
	}
	return out
}

// genCapDenom: fee caps are named in the base denomination in force (mostly), so that contexts
// can still be created and updated after a governance change of that parameter
func (g *GenState) genCapDenom(t *rapid.T) string {
	if g.F.DenomChangePct == 0 {
		return ""
	}
	if bd := g.Cfg.baseDenom(); bd != "stake" {
		if pct(t, "cap_in_base_denom", 70) {
			return bd
		}
		return ""
	}
	if pct(t, "cap_in_foreign_denom", 2) {
		return "point"
	}
	return ""
}

func (g *GenState) genFeeCap(t *rapid.T, service string) *int64 {
	opts := []int64{1e9, 10, 1, 2, 999, 5}
	for _, b := range g.bindingsList() {
		if b.ServiceName == service {
			base := g.basePriceOf(b)
			opts = append(opts, base, base-1)
		}
	}
	v := pick(t, "fee_cap", opts)
	if pct(t, "cap_empty", 2) {
		return nil
	}
	if v <= 0 {
		if pct(t, "cap_zero", 30) {
			return i64(0)
		}
		v = 1
	}
	return i64(v)
}

func (g *GenState) genTimeout(t *rapid.T) int64 {
	mt := g.Cfg.MaxTimeout
	if pct(t, "bad_timeout", 4) {
		return pick(t, "timeout_bad", []int64{mt + 1, 0, -1})
	}
	opts := []int64{1, 2, 3, mt}
	var ok []int64
	for _, o := range opts {
		if o <= mt {
			ok = append(ok, o)
		}
	}
	return pick(t, "timeout", ok)
}

func (g *GenState) genQoS(t *rapid.T) uint64 {
	mt := uint64(g.Cfg.MaxTimeout)
	if pct(t, "bad_qos", 4) {
		return pick(t, "qos_bad", []uint64{mt + 1, 0})
	}
	opts := []uint64{1, 2, 3, mt}
	var ok []uint64
	for _, o := range opts {
		if o <= mt {
			ok = append(ok, o)
		}
	}
	return pick(t, "qos", ok)
}

func (g *GenState) genFreq(t *rapid.T, timeout int64, boundaryOK bool) uint64 {
	opts := []uint64{0, uint64(timeout), uint64(timeout) + 1, uint64(timeout) + 3}
	if pct(t, "low_freq", 4) {
		return 1
	}
	if boundaryOK {
		opts = append(opts, 1<<63, 1<<63+5, ^uint64(0), 1<<62)
	}
	return pick(t, "freq", opts)
}

func (g *GenState) knownCtx(t *rapid.T) string {
	if len(g.CtxIDs) == 0 || pct(t, "unknown_ctx", 3) {
		return hx(rep(0x11, 40))
	}
	// prefer live contexts
	var live []string
	for _, id := range g.CtxIDs {
		if _, ok := g.Snap.Ctxs[id]; ok {
			live = append(live, id)
		}
	}
	if len(live) > 0 && !pct(t, "dead_ctx", 10) {
		return pick(t, "live_ctx", live)
	}
	return pick(t, "any_ctx", g.CtxIDs)
}

// moduleCtx: a context created by the emulated consumer module (a host module only manages
// the contexts it created itself); an unknown ID if there is none
func (g *GenState) moduleCtx(t *rapid.T) string {
	var own []string
	for _, id := range g.CtxIDs {
		if rc, ok := g.Snap.Ctxs[id]; ok && rc.ModuleName != "" {
			own = append(own, id)
		}
	}
	if len(own) == 0 || pct(t, "unknown_ctx", 3) {
		return hx(rep(0x11, 40))
	}
	return pick(t, "module_ctx", own)
}

func (g *GenState) ctxConsumer(id string) string {
	if rc, ok := g.Snap.Ctxs[id]; ok {
		return hx(rc.Consumer)
	}
	return ""
}

// ---------------------------------------------------------------------------------------------
// action kinds and weights

var kindOrder = []string{KRestart, KSetParams, KEndBlock, KDefine, KBind, KCall, KRespond, KUpdateBind, KDisable, KEnable, KRefundDep, KSetWithdr,
	KWithdraw, KPause, KStart, KKill, KUpdateCtx, KModCreate, KModPause, KModStart, KModKill, KModUpdate, KTx}

func (g *GenState) weights() []int {
	s := g.Snap
	nDefs, nBinds, nCtx, nAct := len(s.Defs), len(s.Binds), len(s.Ctxs), len(s.ActiveID)
	userBinds := nBinds
	if g.Cfg.ModSvc != nil {
		nDefs--
		userBinds--
	}
	w := map[string]int{}
	w[KEndBlock] = 14
	w[KDefine] = 2
	if nDefs == 0 {
		w[KDefine] = 14
	}
	if nDefs > 0 {
		w[KBind] = 4
		if userBinds == 0 {
			w[KBind] = 14
		}
	} else {
		w[KBind] = 1
	}
	if nBinds > 0 {
		w[KCall] = 6
		if nCtx == 0 {
			w[KCall] = 12
		}
		w[KUpdateBind], w[KDisable], w[KEnable], w[KRefundDep] = 3, 2, 2, 2
		w[KModCreate] = 2
	} else {
		w[KCall] = 1
		w[KUpdateBind] = 1
	}
	w[KSetWithdr] = 2
	w[KWithdraw] = 1
	if len(s.Earned) > 0 {
		w[KWithdraw] = 4
	}
	w[KRespond] = 1
	if nAct > 0 {
		w[KRespond] = 10
	}
	if len(g.CtxIDs) > 0 {
		w[KPause], w[KStart], w[KKill], w[KUpdateCtx] = 2, 2, 1, 2
		w[KModPause], w[KModStart], w[KModKill], w[KModUpdate] = 1, 1, 1, 1
	}
	w[KTx] = 1
	if nBinds > 0 && g.F.RestartW > 0 {
		w[KRestart] = g.F.RestartW
	}
	if nBinds > 0 && g.F.ParamChangeW > 0 {
		w[KSetParams] = g.F.ParamChangeW
	}
	out := make([]int, len(kindOrder))
	for i, k := range kindOrder {
		m := 1
		if x, ok := g.F.W[k]; ok {
			m = x
		}
		out[i] = w[k] * m
	}
	return out
}

func (g *GenState) genKind(t *rapid.T, exclude map[string]bool) string {
	ws := g.weights()
	total := 0
	for i, k := range kindOrder {
		if exclude[k] {
			ws[i] = 0
		}
		total += ws[i]
	}
	x := uniform(t, "kind", total)
	for i, k := range kindOrder {
		if x < ws[i] {
			return k
		}
		x -= ws[i]
	}
	return KEndBlock
}

// twoCoinPrelude: business in "stake", a governance change of the base denomination to "point",
// then business in "point" by the same owner, so that pending fees, earnings and deposits exist
// in both coins when the random part of the history starts.
func (g *GenState) twoCoinPrelude(t *rapid.T) []Action {
	svc := pick(t, "tc_svc", ServiceNames)
	owner := pick(t, "tc_owner", Signers[:2])
	p1, p2 := Signers[0], Signers[1]
	c1, c2 := pick(t, "tc_consumer1", Signers), pick(t, "tc_consumer2", Signers)
	price := pick(t, "tc_price", []int64{10, 1, 100, 3})
	timeout := pick(t, "tc_timeout", []int64{1, 2})
	if timeout > g.Cfg.MaxTimeout {
		timeout = g.Cfg.MaxTimeout
	}
	ok := RespShapes[0]
	zero, one := 0, 1
	dep := g.Cfg.MinDepositFor(price) + pick(t, "tc_dep_extra", []int64{0, 1, 500})
	np := g.Cfg
	np.Funding, np.FundingPoint, np.ModSvc = nil, nil, nil
	np.BaseDenom = "point"
	acts := []Action{
		{Kind: KDefine, Signer: pick(t, "tc_author", Signers), Service: svc, Schemas: SchemasOK, Desc: "d"},
		{Kind: KBind, Signer: owner, Service: svc, Provider: p1, Deposit: i64(dep), Pricing: fmt.Sprintf(`{"price":"%dstake"}`, price), QoS: 1, Options: "{}"},
		{Kind: KCall, Signer: c1, Service: svc, Providers: []string{p1}, Input: InputOK, FeeCap: i64(1e9), Timeout: timeout,
			Repeated: pct(t, "tc_repeated1", 40), Freq: uint64(timeout) + 1, Total: -1},
		{Kind: KEndBlock, DeltaNs: 5e9},
	}
	if pct(t, "tc_respond1", 60) {
		acts = append(acts, Action{Kind: KRespond, ReqRef: &zero, Signer: p1, Result: ok.Result, Output: ok.Output, OutClass: ok.Class})
	}
	acts = append(acts,
		Action{Kind: KSetParams, Params: &np},
		Action{Kind: KBind, Signer: owner, Service: svc, Provider: p2, Deposit: i64(dep), DepDenom: "point", Pricing: fmt.Sprintf(`{"price":"%dpoint"}`, price), QoS: 1, Options: "{}"},
		Action{Kind: KCall, Signer: c2, Service: svc, Providers: []string{p2}, Input: InputOK, FeeCap: i64(1e9), CapDenom: "point", Timeout: timeout,
			Repeated: pct(t, "tc_repeated2", 40), Freq: uint64(timeout) + 1, Total: -1},
		Action{Kind: KEndBlock, DeltaNs: 5e9})
	if pct(t, "tc_respond2", 60) {
		acts = append(acts, Action{Kind: KRespond, ReqRef: &one, Signer: p2, Result: ok.Result, Output: ok.Output, OutClass: ok.Class})
	}
	return acts
}

// GenPrelude draws a short productive opening (define, bind one to three providers with a
// sufficient deposit, call them, end the block) so that a good share of the histories reaches
// issued requests, responses and earnings. Every choice is still drawn through rapid.
func (g *GenState) GenPrelude(t *rapid.T) []Action {
	if !pct(t, "prelude", g.F.PreludePct) {
		return nil
	}
	if g.F.multi && pct(t, "pre_twocoin", 70) {
		return g.twoCoinPrelude(t)
	}
	variant := pick(t, "pre_variant", []string{"standard", "standard", "standard", "refund", "contention", "lastbatch", "standard", "module", "earlyanswer"})
	if g.Cfg.ReactSiblings && pct(t, "pre_siblings", 70) {
		variant = "siblings"
	}
	if g.F.MarathonPct > 0 && !g.F.multi && !g.F.foreign && pct(t, "pre_marathon", g.F.MarathonPct) {
		return g.marathonPrelude(t)
	}
	if ms := g.Cfg.ModSvc; ms != nil && ms.Provider != hx(rep(0x5d, 20)) && pct(t, "pre_twins", 50) {
		return g.twinEarnersPrelude(t)
	}
	svc := pick(t, "pre_svc", ServiceNames)
	acts := []Action{{Kind: KDefine, Signer: pick(t, "pre_author", Signers), Service: svc, Schemas: SchemasOK, Desc: "d"}}
	n := pick(t, "pre_nprov", []int{1, 2, 3, 2})
	owner := pick(t, "pre_owner", Signers[:2])
	pool := []string{Signers[0], Signers[1], Signers[2], Signers[3]}
	if !g.F.only20 && pct(t, "pre_prefix_provider", g.F.PrefixProv) {
		pool = append([]string{NonSigners[0], NonSigners[2]}, pool...) // prefixes of signer 0 / signer 1
	}
	if pct(t, "pre_reverse_pool", 30) {
		for i, j := 0, len(pool)-1; i < j; i, j = i+1, j-1 {
			pool[i], pool[j] = pool[j], pool[i]
		}
	}
	var provs []string
	qos := uint64(1)
	bind := func(p string) {
		if pct(t, "pre_other_owner", 30) {
			owner = pick(t, "pre_owner2", Signers[:3])
		}
		pricing := GenPricingIn(t, g.Snap.TimeNs, g.genPriceDenom(t))
		base := int64(0)
		if rp, err := ParseRefPricing(pricing); err == nil {
			base = g.Cfg.InBase(rp)
		}
		dep := g.Cfg.MinDepositFor(base) + pick(t, "pre_dep_extra", []int64{0, 1, 500})
		if dep <= 0 {
			dep = 1
		}
		acts = append(acts, Action{Kind: KBind, Signer: owner, Service: svc, Provider: p, Deposit: i64(dep), Pricing: pricing, QoS: qos, Options: "{}"})
		provs = append(provs, p)
	}
	for i := 0; i < n && i < len(pool); i++ {
		bind(pool[i])
	}
	if pct(t, "pre_withdraw_addr", 30) {
		acts = append(acts, Action{Kind: KSetWithdr, Signer: owner, Withdraw: pick(t, "pre_waddr", AllAddrs())})
	}
	timeout := pick(t, "pre_timeout", []int64{1, 2, g.Cfg.MaxTimeout})
	if timeout > g.Cfg.MaxTimeout {
		timeout = g.Cfg.MaxTimeout
	}
	mkCall := func(consumer string, providers []string) Action {
		call := Action{Kind: KCall, Signer: consumer, Service: svc, Providers: providers, Input: InputOK,
			FeeCap: i64(pick(t, "pre_cap", []int64{1e9, 1000, 10})), Timeout: timeout}
		if pct(t, "pre_repeated", 55) {
			call.Repeated = true
			call.Freq = uint64(timeout) + uint64(pick(t, "pre_freq_extra", []int{0, 1, 3}))
			call.Total = pick(t, "pre_total", []int64{2, 3, -1, 1})
		}
		return call
	}
	endBlock := func() Action { return Action{Kind: KEndBlock, DeltaNs: pick(t, "pre_delta", []int64{5e9, 1, 1e9})} }
	switch variant {
	case "refund":
		// disable, let exactly (or 1ns less / more than) the waiting period pass, try to refund
		last := acts[len(acts)-1]
		for i := len(acts) - 1; i >= 0; i-- {
			if acts[i].Kind == KBind {
				last = acts[i]
				break
			}
		}
		if pct(t, "pre_slash_first", 40) {
			acts = append(acts, mkCall(pick(t, "pre_consumer", Signers), provs), endBlock())
		}
		acts = append(acts, Action{Kind: KDisable, Signer: last.Signer, Service: svc, Provider: last.Provider})
		wait := g.Cfg.ArbitrationNs + g.Cfg.ComplaintNs + pick(t, "pre_wait_off", []int64{0, -1, 1, 5e9})
		if g.Cfg.ArbitrationNs >= yearsNs(100) {
			wait = pick(t, "pre_wait_century", []int64{3600e9, yearsNs(150), 5e9})
		}
		if wait <= 0 {
			wait = 1
		}
		acts = append(acts, Action{Kind: KEndBlock, DeltaNs: wait},
			Action{Kind: KRefundDep, Signer: g.signerFor(t, last.Signer), Service: svc, Provider: last.Provider})
		if pct(t, "pre_refund_again", 50) {
			acts = append(acts, endBlock(), Action{Kind: KRefundDep, Signer: last.Signer, Service: svc, Provider: last.Provider})
		}
	case "contention":
		// one consumer with limited funds starts several contexts in the same block
		consumer := pick(t, "pre_poor_consumer", Signers[2:])
		k := pick(t, "pre_ncalls", []int{2, 3, 4})
		for i := 0; i < k; i++ {
			acts = append(acts, mkCall(consumer, provs))
		}
		acts = append(acts, endBlock())
	case "lastbatch":
		// pause during the last batch, start again after it expired
		consumer := pick(t, "pre_consumer", Signers)
		call := mkCall(consumer, provs)
		call.Repeated, call.Total = true, pick(t, "pre_total_small", []int64{1, 2})
		if call.Freq < uint64(timeout) {
			call.Freq = uint64(timeout)
		}
		acts = append(acts, call, endBlock())
	case "earlyanswer":
		// every request of a repeated context's batch is answered well before the batch expires (the
		// batch is complete while its expiry is still queued); then the consumer pauses and restarts,
		// updates or kills the context inside that window
		consumer := pick(t, "pre_consumer", Signers)
		if timeout < 2 {
			timeout = 2
			if g.Cfg.MaxTimeout >= 3 && pct(t, "pre_timeout3", 50) {
				timeout = 3
			}
		}
		if timeout > g.Cfg.MaxTimeout {
			timeout = g.Cfg.MaxTimeout
		}
		call := mkCall(consumer, provs)
		call.Repeated, call.Timeout, call.FeeCap = true, timeout, i64(1e9)
		call.Freq = uint64(timeout) + uint64(pick(t, "pre_freq_extra2", []int{0, 1, 3}))
		call.Total = pick(t, "pre_total2", []int64{-1, 3, 2})
		acts = append(acts, call, endBlock())
		valid := RespShapes[0]
		for i, p := range provs {
			ref := i
			acts = append(acts, Action{Kind: KRespond, Signer: p, ReqID: hx(rep(0x22, 58)), ReqRef: &ref, Result: valid.Result, Output: valid.Output, OutClass: valid.Class})
		}
		zero := 0
		switch pick(t, "pre_early_then", []string{"pause_start", "pause_start", "pause", "update", "kill", "none"}) {
		case "pause_start":
			acts = append(acts, Action{Kind: KPause, Signer: consumer, CtxID: hx(rep(0x11, 40)), CtxRef: &zero},
				Action{Kind: KStart, Signer: consumer, CtxID: hx(rep(0x11, 40)), CtxRef: &zero})
		case "pause":
			acts = append(acts, Action{Kind: KPause, Signer: consumer, CtxID: hx(rep(0x11, 40)), CtxRef: &zero})
		case "update":
			acts = append(acts, Action{Kind: KUpdateCtx, Signer: consumer, CtxID: hx(rep(0x11, 40)), CtxRef: &zero, Freq: uint64(timeout)})
		case "kill":
			acts = append(acts, Action{Kind: KKill, Signer: consumer, CtxID: hx(rep(0x11, 40)), CtxRef: &zero})
		}
		acts = append(acts, endBlock())
	case "siblings":
		// several repeated contexts of one module come due in the same block; the consumer of one of them
		// is the poorest account (it often cannot pay), the others can
		poor := Signers[2]
		for _, sg := range Signers[2:] {
			if g.Cfg.Funding[sg] < g.Cfg.Funding[poor] {
				poor = sg
			}
		}
		consumers := pick(t, "pre_sibling_order", [][]string{{poor, Signers[0]}, {Signers[0], poor}, {Signers[1], poor, Signers[0]}, {poor, Signers[1], poor}})
		for _, cns := range consumers {
			call := mkCall(cns, provs)
			call.Kind, call.Repeated, call.FeeCap = KModCreate, true, i64(1e9)
			call.Freq = uint64(timeout) + uint64(pick(t, "pre_freq_extra3", []int{0, 1}))
			call.Total = -1
			call.Threshold = 1
			acts = append(acts, call)
		}
		acts = append(acts, endBlock())
	case "module":
		call := mkCall(pick(t, "pre_consumer", Signers), provs)
		call.Kind = KModCreate
		call.Threshold = uint32(pick(t, "pre_threshold", []int{1, len(provs), 2}))
		acts = append(acts, call, endBlock())
	default:
		call := mkCall(pick(t, "pre_consumer", Signers), provs)
		if pct(t, "pre_module", 15) {
			call.Kind = KModCreate
			call.Threshold = uint32(pick(t, "pre_threshold", []int{1, len(provs)}))
		}
		acts = append(acts, call, endBlock())
	}
	return acts
}

// marathonPrelude: a long-running feed - a repeated context with timeout 1, frequency 1 and no total,
// answered now and then - is taken past its 255th batch (the batch counter is a big-endian part of
// request ids and of the keys the per-batch scans use; 255 -> 256 is where its low byte wraps).
func (g *GenState) marathonPrelude(t *rapid.T) []Action {
	svc := pick(t, "ma_svc", ServiceNames)
	s0, consumer := Signers[0], Signers[1]
	valid := RespShapes[0]
	acts := []Action{
		{Kind: KDefine, Signer: s0, Service: svc, Schemas: SchemasOK, Desc: "d"},
		{Kind: KBind, Signer: s0, Service: svc, Provider: s0, Deposit: i64(g.Cfg.MinDepositFor(1) + 1), Pricing: `{"price":"1stake"}`, QoS: 1, Options: "{}"},
		{Kind: KCall, Signer: consumer, Service: svc, Providers: []string{s0}, Input: InputOK, FeeCap: i64(1000), Timeout: 1,
			Repeated: true, Freq: 1, Total: -1, Super: pct(t, "ma_super", 70)},
	}
	n := pick(t, "ma_blocks", []int{256, 257, 258})
	// in super mode nobody is slashed for silence: answer now and then; otherwise every batch is answered,
	// or the provider would be slashed out of service long before
	answer := pick(t, "ma_answer_every", []int{0, 64, 255})
	if !acts[2].Super {
		answer = 1
	}
	for i := 1; i <= n; i++ {
		acts = append(acts, Action{Kind: KEndBlock, DeltaNs: 1e9})
		if answer > 0 && (i%answer == 0 || i == 255) {
			ref := i - 1 // the request of batch i (one request per batch)
			acts = append(acts, Action{Kind: KRespond, Signer: s0, ReqID: hx(rep(0x22, 58)), ReqRef: &ref, Result: valid.Result, Output: valid.Output, OutClass: valid.Class})
		}
	}
	return acts
}

// twinEarnersPrelude: signer 0 (an ordinary provider) and the module-service provider, whose address
// is a prefix or an extension of signer 0, both earn; then earnings are withdrawn per provider
// (twice) and per owner. Requests are referred to symbolically (the first request of the history).
func (g *GenState) twinEarnersPrelude(t *rapid.T) []Action {
	svc := pick(t, "tw_svc", ServiceNames)
	s0, consumer := Signers[0], pick(t, "tw_consumer", Signers[1:4])
	price := pick(t, "tw_price", []int64{10, 100, 1})
	dep := g.Cfg.MinDepositFor(price) + 1
	zero := 0
	valid := RespShapes[0]
	acts := []Action{
		{Kind: KDefine, Signer: s0, Service: svc, Schemas: SchemasOK, Desc: "d"},
		{Kind: KBind, Signer: s0, Service: svc, Provider: s0, Deposit: i64(dep), Pricing: fmt.Sprintf(`{"price":"%dstake"}`, price), QoS: 1, Options: "{}"},
		{Kind: KCall, Signer: consumer, Service: svc, Providers: []string{s0}, Input: InputOK, FeeCap: i64(1e9), Timeout: pick(t, "tw_timeout", []int64{1, 2})},
		{Kind: KCall, Signer: consumer, Service: ModSvcName, Providers: []string{g.Cfg.ModSvc.Provider}, Input: InputOK, FeeCap: i64(1e9), Timeout: 1},
		{Kind: KEndBlock, DeltaNs: 5e9},
		{Kind: KRespond, Signer: s0, ReqID: hx(rep(0x22, 58)), ReqRef: &zero, Result: valid.Result, Output: valid.Output, OutClass: valid.Class},
	}
	order := pick(t, "tw_order", []string{"s0,s0,owner", "mod,s0,s0", "s0,mod,s0", "owner,s0,mod"})
	for _, who := range strings.Split(order, ",") {
		switch who {
		case "s0":
			acts = append(acts, Action{Kind: KWithdraw, Signer: s0, Provider: s0})
		case "mod":
			acts = append(acts, Action{Kind: KWithdraw, Signer: g.Cfg.ModSvc.Owner, Provider: g.Cfg.ModSvc.Provider})
		case "owner":
			acts = append(acts, Action{Kind: KWithdraw, Signer: pick(t, "tw_owner", []string{s0, g.Cfg.ModSvc.Owner})})
		}
	}
	return acts
}

// GenAction draws the next action from the current world.
func (g *GenState) GenAction(t *rapid.T) Action {
	if g.F.Prop == "C20" && pct(t, "boundary_msg", 15) {
		return g.withRefs(g.genBoundaryMsg(t))
	}
	return g.withRefs(g.genOfKind(t, g.genKind(t, nil)))
}

// withRefs adds the symbolic form of the context / request the action targets
func (g *GenState) withRefs(a Action) Action {
	if a.CtxID != "" {
		for i, id := range g.CtxIDs {
			if id == a.CtxID {
				a.CtxRef = &[]int{i}[0]
				break
			}
		}
	}
	if a.ReqID != "" {
		for i, id := range g.ReqIDs {
			if id == a.ReqID {
				a.ReqRef = &[]int{i}[0]
				break
			}
		}
	}
	for i := range a.Msgs {
		a.Msgs[i] = g.withRefs(a.Msgs[i])
	}
	return a
}

const maxI64 = int64(^uint64(0) >> 1)

// hugePrices: pricing texts whose amount sits at the limits of the chain's integer (2^255-1) and
// 18-decimal (2^255 / 10^18) types, where a product with the deposit multiple, a conversion from the
// main unit or a conversion to a decimal no longer fits. Stateless validation accepts them.
var hugePrices = []string{
	`{"price":"57896044618658097711785492504343953926634992332820282019728792003956564819967stake"}`, // 2^255-1
	`{"price":"1` + strings.Repeat("0", 76) + `stake"}`,
	`{"price":"289480223093290488558927462521719769633174961664101410098643960019782824100stake"}`, // just above (2^255-1)/200
	`{"price":"28948022309329048855892746252171976963317496166410141009864396001978282409984stake"}`, // 2^254
	`{"price":"57896044618658097711785492504343953926634992332820282019729stake"}`,                 // just above 2^255 / 10^18
	`{"price":"1` + strings.Repeat("0", 59) + `stake"}`,
	`{"price":"1` + strings.Repeat("0", 74) + `kstake"}`,
	`{"price":"1` + strings.Repeat("0", 56) + `kstake"}`,
	`{"price":"1` + strings.Repeat("0", 30) + `stake","promotions_by_volume":[{"volume":1,"discount":"0.999999999999999999"}]}`,
	`{"price":"1` + strings.Repeat("0", 80) + `.0stake"}`, // a decimal beyond the integer range
	`{"price":"99999999999999999999999999999999999999999999999999999999999999999999999999999.5stake"}`,
	// promotion windows at the limits of the calendar
	`{"price":"10stake","promotions_by_time":[{"start_time":"0000-01-01T00:00:00Z","end_time":"9999-12-31T23:59:59Z","discount":"0.5"}]}`,
	`{"price":"10stake","promotions_by_time":[{"start_time":"0001-01-01T00:00:00Z","end_time":"9999-12-31T23:59:59.999999999Z","discount":"0.5"}]}`,
	`{"price":"10stake","promotions_by_time":[{"start_time":"1677-09-21T00:12:43Z","end_time":"2262-04-11T23:47:17Z","discount":"0.5"}]}`,
}

// genBoundaryMsg: messages with boundary shapes - empty coin lists, maximal provider lists, zero and
// maximal numeric fields, empty optional strings, longest names. Most are meant to pass stateless
// validation; what the handler does with them must never be a panic.
func (g *GenState) genBoundaryMsg(t *rapid.T) Action {
	s := g.Snap
	kind := pick(t, "b_kind", []string{KBind, KCall, KUpdateBind, KEnable, KDefine, KUpdateCtx, KRespond, KWithdraw, KSetWithdr, KModCreate, KModUpdate})
	a := g.genOfKind(t, kind)
	a.Tag = "boundary"
	bigCoins := []*int64{nil, i64(1), i64(maxI64), i64(0)}
	switch kind {
	case KBind:
		a.Deposit = pick(t, "b_deposit", bigCoins)
		a.QoS = pick(t, "b_qos", []uint64{1, ^uint64(0), 1 << 63, uint64(g.Cfg.MaxTimeout)})
		a.Options = pick(t, "b_options", []string{"{}", "null", "[]", "0", `""`})
		a.Pricing = pick(t, "b_pricing", []string{`{"price":"0stake"}`, `{"price":"9000000000000000000stake"}`, `{"price":"0.000000000000000001stake"}`,
			`{"price":"1stake","promotions_by_time":[],"promotions_by_volume":[]}`, `{"price":"1stake","promotions_by_volume":[{"volume":9223372036854775807,"discount":"0.1"}]}`,
			`{"price":"1atom"}`, `{"price":"1stake","promotions_by_time":null}`})
		if pct(t, "b_huge_price", 30) {
			a.Pricing = pick(t, "b_huge", hugePrices)
		}
	case KUpdateBind:
		a.Deposit = pick(t, "b_deposit", bigCoins)
		a.QoS = pick(t, "b_qos", []uint64{0, ^uint64(0), 1})
		a.Pricing = pick(t, "b_pricing", []string{"", `{"price":"0stake"}`, `{"price":"9000000000000000000stake"}`, `{"price":"1atom"}`})
		if pct(t, "b_huge_price", 40) {
			a.Pricing = pick(t, "b_huge", hugePrices)
		}
		a.Options = pick(t, "b_options", []string{"{}", "null"})
	case KEnable:
		a.Deposit = pick(t, "b_deposit", bigCoins)
	case KDefine:
		a.Service = pick(t, "b_name", []string{strings.Repeat("n", 70), "z", "Z-_9", pick(t, "def_name", ServiceNames)})
		a.Desc = pick(t, "b_desc", []string{"", strings.Repeat("d", 280)})
		a.Tags = pick(t, "b_tags", [][]string{nil, {}, {strings.Repeat("t", 70)}, {"1", "2", "3", "4", "5", "6", "7", "8", "9", "10"}})
		a.Schemas = pick(t, "b_schemas", []string{SchemasOK, `{"input":{},"output":{}}`, `{}`, `{"input":null,"output":null}`,
			`{"input":{"type":"object","properties":{"a":{"$ref":"#/definitions/x"}}},"output":{}}`, `{"input":{"type":5},"output":{}}`})
	case KCall, KModCreate:
		if pct(t, "b_ten_providers", 40) {
			all := AllAddrs()
			a.Providers = append([]string{}, all[:10]...)
		} else if pct(t, "b_empty_provider", 20) {
			a.Providers = append(a.Providers, "")
		}
		a.FeeCap = pick(t, "b_cap", bigCoins)
		a.Timeout = pick(t, "b_timeout", []int64{1, g.Cfg.MaxTimeout, maxI64, 0})
		a.Repeated = pct(t, "b_repeated", 60)
		a.Freq = pick(t, "b_freq", []uint64{0, 1, uint64(g.Cfg.MaxTimeout), ^uint64(0), 1 << 63})
		a.Total = pick(t, "b_total", []int64{-1, 1, maxI64, 0})
		a.Input = pick(t, "b_input", []string{InputOK, `{"header":{}}`, `{"header":{},"body":{},"x":[1,2,3]}`})
		if kind == KModCreate {
			a.Threshold = pick(t, "b_threshold", []uint32{1, 0, 10, ^uint32(0)})
		}
	case KUpdateCtx, KModUpdate:
		a.Timeout = pick(t, "b_timeout", []int64{0, 1, maxI64, g.Cfg.MaxTimeout})
		a.Freq = pick(t, "b_freq", []uint64{0, 1, ^uint64(0), 1 << 63})
		a.Total = pick(t, "b_total", []int64{0, -1, maxI64})
		a.FeeCap = pick(t, "b_cap", bigCoins)
		if pct(t, "b_ten_providers", 30) {
			a.Providers = append([]string{}, AllAddrs()[:10]...)
		}
	case KRespond:
		if len(s.ActiveID) == 0 || pct(t, "b_reqid", 30) {
			a.ReqID = pick(t, "b_req", []string{hx(rep(0xff, 58)), hx(rep(0x00, 58))})
		}
		a.Result = pick(t, "b_result", []string{`{"code":200,"message":""}`, `{"code":500,"message":""}`, `{"code":400,"message":"` + strings.Repeat("m", 300) + `"}`})
		if strings.Contains(a.Result, "200") {
			a.Output = pick(t, "b_output", []string{`{"header":{}}`, `{"header":{},"body":{"a":[[[[[]]]]]}}`, `{}`, `null`, `0`})
			a.OutClass = "unknown"
		} else {
			a.Output, a.OutClass = "", "none"
		}
	case KWithdraw:
		a.Provider = pick(t, "b_wprov", []string{"", hx(rep(0xb1, 1)), hx(rep(0x07, 255)), a.Provider})
	case KSetWithdr:
		a.Withdraw = pick(t, "b_waddr", []string{hx(rep(0x01, 1)), hx(rep(0x07, 255)), hx([]byte("stake")), a.Withdraw})
	}
	return a
}

func (g *GenState) genOfKind(t *rapid.T, kind string) Action {
	s := g.Snap
	boundary := g.F.Boundary > 0
	switch kind {
	case KEndBlock:
		return Action{Kind: KEndBlock, DeltaNs: g.genDelta(t)}
	case KRestart:
		return Action{Kind: KRestart}
	case KSetParams:
		// change one or two parameters, keep the rest as they are
		n := g.Cfg
		n.Funding, n.ModSvc = nil, nil
		which := pick(t, "param", []string{"min_deposit", "multiple", "slash", "tax", "periods", "max_timeout"})
		if g.F.DenomChangePct > 0 && !g.F.foreign && pct(t, "denom_change", g.F.DenomChangePct) {
			which = "base_denom"
		}
		switch which {
		case "base_denom":
			// the base denomination moves to a coin nobody holds (and back): from here on deposits
			// and fee caps in "stake" are rejected, existing records keep their "stake" amounts
			if n.baseDenom() == "stake" {
				n.BaseDenom = "point"
			} else {
				n.BaseDenom = ""
			}
		case "min_deposit":
			cur := int64(0)
			if n.MinDeposit != nil {
				cur = *n.MinDeposit
			}
			v := pick(t, "new_min_deposit", []int64{cur + 1, cur * 2, cur + 1000, cur / 2, 0, 7000})
			n.MinDeposit = i64(v)
			if v == 0 {
				n.MinDeposit = nil
			}
		case "multiple":
			n.Multiple = pick(t, "new_multiple", []int64{n.Multiple + 1, n.Multiple * 10, 1, 200})
		case "slash":
			n.Slash = pick(t, "new_slash", []string{"0", "1", "0.5", "0.001"})
		case "tax":
			n.Tax = pick(t, "new_tax", []string{"0", "0.5", "0.1", "0.999999"})
		case "periods":
			n.ArbitrationNs = pick(t, "new_arb", []int64{1, 5e9, 3600e9})
			n.ComplaintNs = pick(t, "new_compl", []int64{1, 5e9, 3600e9})
		case "max_timeout":
			n.MaxTimeout = pick(t, "new_max_timeout", []int64{1, 2, 5, 20})
		}
		return Action{Kind: KSetParams, Params: &n}
	case KDefine:
		name := pick(t, "def_name", ServiceNames)
		if pct(t, "odd_name", 3) {
			name = pick(t, "odd", []string{ModSvcName, "x_1", strings.Repeat("n", 70), strings.Repeat("n", 71), "1bad", ""})
		}
		a := Action{Kind: KDefine, Signer: pick(t, "author", Signers), Service: name, Schemas: SchemasOK, Desc: "d"}
		if (g.F.Prop == "C19" || g.F.Prop == "C20") && pct(t, "desc_not_utf8", 2) {
			// a description that is not valid UTF-8 (stateless validation does not look at it; the binary
			// encoding carries it as it is): the trigger of a listed finding of C19
			a.DescHex = hx([]byte("bad\xff\xfedesc"))
		}
		if pct(t, "tags", 30) {
			a.Tags = pick(t, "tagset", [][]string{{"t1"}, {"t1", "t2"}})
			if pct(t, "dup_tags", 3) {
				a.Tags = []string{"t1", "t1"}
			}
		}
		return a
	case KBind:
		svc := g.genService(t, true)
		if g.Cfg.ModSvc != nil && pct(t, "bind_reserved", 10) {
			svc = ModSvcName
		}
		prov := g.genProviderAddr(t)
		owner := pick(t, "owner", Signers[:4])
		if o, ok := s.Owner[prov]; ok {
			owner = g.signerFor(t, o)
		}
		pricing := g.bigPriceSometimes(t, illegalPricingSometimes(t, GenPricingIn(t, s.TimeNs, g.genPriceDenom(t)), s.TimeNs, g.F.IllegalPricingPct))
		base := int64(0)
		if rp, err := ParseRefPricing(pricing); err == nil {
			base = g.Cfg.InBase(rp)
		}
		return Action{Kind: KBind, Signer: owner, Service: svc, Provider: prov,
			Deposit: g.genDepositAround(t, g.Cfg.MinDepositFor(base), 0), DepDenom: g.genDepDenom(t), Pricing: pricing,
			QoS: g.genQoS(t), Options: "{}"}
	case KUpdateBind, KDisable, KEnable, KRefundDep:
		bl := g.bindingsList()
		var b types.ServiceBinding
		if len(bl) > 0 && !pct(t, "missing_binding", 4) {
			b = pick(t, "binding", bl)
		} else {
			b = types.ServiceBinding{ServiceName: pick(t, "svc_any", ServiceNames), Provider: addr(g.genProviderAddr(t)), Owner: addr(Signers[0])}
		}
		a := Action{Kind: kind, Service: b.ServiceName, Provider: hx(b.Provider), Signer: g.signerFor(t, hx(b.Owner))}
		have := stakeOf(b.Deposit)
		if kind == KUpdateBind || kind == KEnable {
			a.DepDenom = g.genDepDenom(t)
			if a.DepDenom != "" {
				have = mustI64(b.Deposit.AmountOf(a.DepDenom))
			}
		}
		switch kind {
		case KUpdateBind:
			a.Options = "{}"
			newBase := g.basePriceOf(b)
			if pct(t, "upd_pricing", 50) {
				a.Pricing = g.bigPriceSometimes(t, illegalPricingSometimes(t, GenPricingIn(t, s.TimeNs, g.genPriceDenom(t)), s.TimeNs, g.F.IllegalPricingPct))
				if pct(t, "upd_same_pricing", 12) {
					a.Pricing = b.Pricing // a client re-submitting the full, unchanged specification
				}
				if rp, err := ParseRefPricing(a.Pricing); err == nil {
					newBase = g.Cfg.InBase(rp)
				}
			}
			if pct(t, "upd_deposit", 50) {
				a.Deposit = g.genDepositAround(t, g.Cfg.MinDepositFor(newBase), have)
			}
			if pct(t, "upd_qos", 30) {
				a.QoS = g.genQoS(t)
			}
		case KEnable:
			if pct(t, "enable_deposit", 50) {
				a.Deposit = g.genDepositAround(t, g.Cfg.MinDepositFor(g.basePriceOf(b)), have)
			}
		}
		return a
	case KSetWithdr:
		wa := pick(t, "waddr", AllAddrs())
		if pct(t, "waddr_module_account", 5) {
			// one of the service module's own accounts: must be refused (earnings withdrawn into it would
			// sit next to the deposits / escrowed fees without belonging to either: D26)
			wa = pick(t, "waddr_module", []string{hx(authtypes.NewModuleAddress(types.DepositAccName)), hx(authtypes.NewModuleAddress(types.RequestAccName))})
		}
		return Action{Kind: KSetWithdr, Signer: pick(t, "signer", Signers), Withdraw: wa}
	case KWithdraw:
		signer := pick(t, "signer", Signers)
		a := Action{Kind: KWithdraw, Signer: signer}
		if pct(t, "per_provider", 60) {
			// a provider: one with earnings, one owned by the signer, or any
			var cands []string
			for _, e := range s.Earned {
				cands = append(cands, e.Provider)
			}
			for _, p := range sortedKeys(s.Owner) {
				cands = append(cands, p)
			}
			cands = append(cands, AllAddrs()...)
			a.Provider = pick(t, "w_provider", cands)
			if o, ok := s.Owner[a.Provider]; ok {
				a.Signer = g.signerFor(t, o)
			}
		} else if len(s.OwnerEarn) > 0 {
			a.Signer = g.signerFor(t, pick(t, "earning_owner", sortedKeys(s.OwnerEarn)))
		}
		return a
	case KCall, KModCreate:
		svc := g.genService(t, true)
		if g.Cfg.ModSvc != nil && kind == KCall && pct(t, "call_modsvc", 25) {
			svc = ModSvcName
		}
		timeout := g.genTimeout(t)
		a := Action{Kind: kind, Signer: pick(t, "consumer", Signers), Service: svc, Providers: g.genProvidersList(t, svc),
			Input: InputOK, FeeCap: g.genFeeCap(t, svc), Timeout: timeout, Super: pct(t, "super", 10)}
		a.CapDenom = g.genCapDenom(t)
		if pct(t, "bad_input", 2) {
			a.Input = pick(t, "input", []string{`{}`, ``, `[]`, `{"header":{}}`})
		}
		if pct(t, "repeated", 55) {
			a.Repeated = true
			a.Freq = g.genFreq(t, timeout, boundary && pct(t, "boundary_freq", g.F.Boundary))
			a.Total = pick(t, "total", []int64{2, 1, 3, -1})
			if pct(t, "bad_total", 2) {
				a.Total = pick(t, "total_bad", []int64{0, -2})
			}
		}
		if kind == KModCreate {
			n := len(a.Providers)
			a.Threshold = uint32(pick(t, "threshold", []int{1, n, 2, 0, n + 1}))
			if pct(t, "create_paused", 15) {
				a.Desc = "paused"
			}
			if pct(t, "half_registered_module", 6) {
				// a module that registered a response callback only must not get a context
				// (it could not be told that its consumer cannot pay)
				a.Module = pick(t, "other_module", []string{VModHalf, VModHalf, "nomod"})
			}
		}
		return a
	case KRespond:
		var reqID string
		act := sortedKeys(s.ActiveID)
		switch {
		case len(act) > 0 && !pct(t, "inactive_req", 20):
			reqID = pick(t, "active_req", act)
		case len(g.ReqIDs) > 0 && !pct(t, "unknown_req", 20):
			reqID = pick(t, "known_req", g.ReqIDs)
		default:
			base := rep(0x22, 58)
			if len(g.ReqIDs) > 0 {
				base = unhx(pick(t, "mut_base", g.ReqIDs))
				i := pick(t, "mut_at", []int{57, 56, 47, 55, 39, 0})
				base[i] ^= 1
			}
			reqID = hx(base)
		}
		prov := ""
		if r, ok := s.Reqs[reqID]; ok {
			prov = hx(r.Provider)
		}
		sh := pick(t, "resp_shape", RespShapes)
		a := Action{Kind: KRespond, ReqID: reqID, Signer: g.signerFor(t, prov), Result: sh.Result, Output: sh.Output, OutClass: sh.Class}
		if pct(t, "vb_bad_resp", 2) {
			a.Output = ""
			a.OutClass = "none"
		}
		return a
	case KPause, KStart, KKill:
		id := g.knownCtx(t)
		return Action{Kind: kind, CtxID: id, Signer: g.signerFor(t, g.ctxConsumer(id))}
	case KModPause, KModStart, KModKill:
		id := g.moduleCtx(t)
		return Action{Kind: kind, CtxID: id, Signer: g.signerFor(t, g.ctxConsumer(id))}
	case KUpdateCtx, KModUpdate:
		id := g.knownCtx(t)
		if kind == KModUpdate {
			id = g.moduleCtx(t)
		}
		a := Action{Kind: kind, CtxID: id, Signer: g.signerFor(t, g.ctxConsumer(id))}
		rc := s.Ctxs[id]
		if pct(t, "upd_providers", 30) {
			a.Providers = g.genProvidersList(t, rc.ServiceName)
		}
		if pct(t, "upd_cap", 30) {
			a.FeeCap = g.genFeeCap(t, rc.ServiceName)
			a.CapDenom = g.genCapDenom(t)
		}
		tmo := rc.Timeout
		if pct(t, "upd_timeout", 35) {
			a.Timeout = g.genTimeout(t)
			if a.Timeout > 0 {
				tmo = a.Timeout
			}
		}
		if pct(t, "upd_freq", 35) {
			a.Freq = g.genFreq(t, tmo, boundary && pct(t, "boundary_freq", g.F.Boundary))
		}
		if pct(t, "upd_total", 35) {
			a.Total = pick(t, "total", []int64{int64(rc.BatchCounter), int64(rc.BatchCounter) + 1, 1, 5, -1, -2})
		}
		if kind == KModUpdate && pct(t, "upd_threshold", 30) {
			a.Threshold = uint32(pick(t, "threshold", []int{1, 2, 3, 11}))
		}
		return a
	case KTx:
		n := pick(t, "tx_n", []int{2, 2, 3})
		a := Action{Kind: KTx}
		for i := 0; i < n; i++ {
			k := g.genKind(t, map[string]bool{KTx: true, KEndBlock: true, KRestart: true, KSetParams: true})
			if i > 0 && (a.Msgs[i-1].Kind == KCall || a.Msgs[i-1].Kind == KModCreate) && pct(t, "tx_manage_new_ctx", 40) {
				// a later message of the transaction manages the context an earlier one creates
				creator := a.Msgs[i-1]
				k = pick(t, "tx_manage_kind", []string{KUpdateCtx, KPause, KKill, KStart})
				if creator.Kind == KModCreate {
					k = pick(t, "tx_manage_mod_kind", []string{KModUpdate, KModPause, KModKill, KModStart})
				}
				m := g.genOfKind(t, k)
				ref := i - 1
				m.TxRef, m.CtxRef, m.CtxID = &ref, nil, hx(rep(0x11, 40))
				m.Signer = g.signerFor(t, creator.Signer)
				a.Msgs = append(a.Msgs, m)
				continue
			}
			a.Msgs = append(a.Msgs, g.genOfKind(t, k))
		}
		return a
	}
	panic("harness: unknown kind " + kind)
}
