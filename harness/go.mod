module verif/harness

go 1.23

require (
	github.com/cosmos/cosmos-sdk v0.34.4-0.20200914022129-c26ef79ed0a2
	github.com/gogo/protobuf v1.3.1
	github.com/irismod/service v0.0.0
	github.com/tendermint/tendermint v0.34.0-rc3.0.20200907055413-3359e0bf2f84
	pgregory.net/rapid v1.3.0
)

require (
	github.com/99designs/keyring v1.1.5 // indirect
	github.com/ChainSafe/go-schnorrkel v0.0.0-20200405005733-88cbf1b4c40d // indirect
	github.com/armon/go-metrics v0.3.4 // indirect
	github.com/beorn7/perks v1.0.1 // indirect
	github.com/bgentry/speakeasy v0.1.0 // indirect
	github.com/btcsuite/btcd v0.21.0-beta // indirect
	github.com/cespare/xxhash/v2 v2.1.1 // indirect
	github.com/confio/ics23/go v0.0.0-20200817220745-f173e6211efb // indirect
	github.com/cosmos/go-bip39 v0.0.0-20180819234021-555e2067c45d // indirect
	github.com/cosmos/iavl v0.15.0-rc3 // indirect
	github.com/davecgh/go-spew v1.1.1 // indirect
	github.com/dvsekhvalnov/jose2go v0.0.0-20180829124132-7f401d37b68a // indirect
	github.com/enigmampc/btcutil v1.0.3-0.20200723161021-e2fb6adb2a25 // indirect
	github.com/felixge/httpsnoop v1.0.1 // indirect
	github.com/fsnotify/fsnotify v1.4.9 // indirect
	github.com/go-kit/kit v0.10.0 // indirect
	github.com/go-logfmt/logfmt v0.5.0 // indirect
	github.com/godbus/dbus v0.0.0-20190726142602-4481cbc300e2 // indirect
	github.com/gogo/gateway v1.1.0 // indirect
	github.com/golang/protobuf v1.4.2 // indirect
	github.com/golang/snappy v0.0.1 // indirect
	github.com/google/btree v1.0.0 // indirect
	github.com/gorilla/handlers v1.5.0 // indirect
	github.com/gorilla/mux v1.8.0 // indirect
	github.com/gorilla/websocket v1.4.2 // indirect
	github.com/grpc-ecosystem/grpc-gateway v1.14.8 // indirect
	github.com/gsterjov/go-libsecret v0.0.0-20161001094733-a6f4afe4910c // indirect
	github.com/gtank/merlin v0.1.1 // indirect
	github.com/gtank/ristretto255 v0.1.2 // indirect
	github.com/hashicorp/go-immutable-radix v1.0.0 // indirect
	github.com/hashicorp/golang-lru v0.5.4 // indirect
	github.com/hashicorp/hcl v1.0.0 // indirect
	github.com/libp2p/go-buffer-pool v0.0.2 // indirect
	github.com/magiconair/properties v1.8.2 // indirect
	github.com/mattn/go-isatty v0.0.12 // indirect
	github.com/matttproud/golang_protobuf_extensions v1.0.1 // indirect
	github.com/mimoo/StrobeGo v0.0.0-20181016162300-f8f6d4d2b643 // indirect
	github.com/mitchellh/go-homedir v1.1.0 // indirect
	github.com/mitchellh/mapstructure v1.1.2 // indirect
	github.com/mtibben/percent v0.2.1 // indirect
	github.com/pelletier/go-toml v1.8.0 // indirect
	github.com/pkg/errors v0.9.1 // indirect
	github.com/pmezard/go-difflib v1.0.0 // indirect
	github.com/prometheus/client_golang v1.7.1 // indirect
	github.com/prometheus/client_model v0.2.0 // indirect
	github.com/prometheus/common v0.13.0 // indirect
	github.com/prometheus/procfs v0.1.3 // indirect
	github.com/rakyll/statik v0.1.7 // indirect
	github.com/rcrowley/go-metrics v0.0.0-20200313005456-10cdbea86bc0 // indirect
	github.com/regen-network/cosmos-proto v0.3.0 // indirect
	github.com/spf13/afero v1.2.2 // indirect
	github.com/spf13/cast v1.3.1 // indirect
	github.com/spf13/cobra v1.0.0 // indirect
	github.com/spf13/jwalterweatherman v1.1.0 // indirect
	github.com/spf13/pflag v1.0.5 // indirect
	github.com/spf13/viper v1.7.1 // indirect
	github.com/stretchr/testify v1.6.1 // indirect
	github.com/subosito/gotenv v1.2.0 // indirect
	github.com/syndtr/goleveldb v1.0.1-0.20200815110645-5c35d600f0ca // indirect
	github.com/tendermint/btcd v0.1.1 // indirect
	github.com/tendermint/crypto v0.0.0-20191022145703-50d29ede1e15 // indirect
	github.com/tendermint/go-amino v0.15.1 // indirect
	github.com/tendermint/tm-db v0.6.2 // indirect
	github.com/tidwall/gjson v1.6.1 // indirect
	github.com/tidwall/match v1.0.1 // indirect
	github.com/tidwall/pretty v1.0.2 // indirect
	github.com/xeipuuv/gojsonpointer v0.0.0-20180127040702-4e3ac2762d5f // indirect
	github.com/xeipuuv/gojsonreference v0.0.0-20180127040603-bd5ef7bd5415 // indirect
	github.com/xeipuuv/gojsonschema v1.2.0 // indirect
	golang.org/x/crypto v0.0.0-20200820211705-5c72a883971a // indirect
	golang.org/x/net v0.0.0-20200813134508-3edf25e44fcc // indirect
	golang.org/x/sys v0.0.0-20200814200057-3d37ad5750ed // indirect
	golang.org/x/text v0.3.3 // indirect
	google.golang.org/genproto v0.0.0-20200911024640-645f7a48b24f // indirect
	google.golang.org/grpc v1.32.0 // indirect
	google.golang.org/protobuf v1.25.0 // indirect
	gopkg.in/ini.v1 v1.51.0 // indirect
	gopkg.in/yaml.v2 v2.3.0 // indirect
	gopkg.in/yaml.v3 v3.0.0-20200313102051-9f266ea9e77c // indirect
)

replace (
	github.com/gogo/protobuf => github.com/regen-network/protobuf v1.3.2-alpha.regen.4
	github.com/irismod/service => /repo
	github.com/keybase/go-keychain => github.com/99designs/go-keychain v0.0.0-20191008050251-8e49817e8af4
)
