package harness

import (
	"sort"
)

// Expected money movements of one step, computed from the state before the step, the action
// and the harness's model - never from the module's own functions. Used by the ledger oracles
// (C02 settlement, C03 deposits, C04 slashing, C05 debits).

type SlashExp struct {
	ReqID    string
	Service  string
	Provider string // hex
	Amount   int64
}

type Expect struct {
	Delta       map[string]int64 // account hex -> expected balance change
	Supply      int64            // expected change of total supply
	Slashes     []SlashExp
	DepositPost map[string]int64 // bkey -> expected deposit after the step, for every binding touched
	Settled     map[string]string // request id -> "paid" | "refunded"
	Notes       []string
}

func newExpect() *Expect {
	return &Expect{Delta: map[string]int64{}, DepositPost: map[string]int64{}, Settled: map[string]string{}}
}

func (e *Expect) move(from, to string, amt int64) {
	if amt == 0 {
		return
	}
	e.Delta[from] -= amt
	e.Delta[to] += amt
}

// slash applies one slash to the binding's expected deposit and returns the burned amount
func (e *Expect) slash(w *World, pre *Snapshot, reqID, service, provHex string) {
	bk := bkey(service, provHex)
	dep, ok := e.DepositPost[bk]
	if !ok {
		b, found := pre.Binds[bk]
		if !found {
			return
		}
		dep = stakeOf(b.Deposit)
	}
	amt := floorMul(dep, w.cfg.Slash)
	if w.cfg.baseDenom() != "stake" {
		// a slash takes the fraction of the deposit's amount of the base denomination; deposits are
		// held in "stake", so after the base denomination has moved elsewhere that amount is zero
		amt = 0
	}
	e.DepositPost[bk] = dep - amt
	e.Delta[w.DepositAcc] -= amt
	e.Supply -= amt
	e.Slashes = append(e.Slashes, SlashExp{ReqID: reqID, Service: service, Provider: provHex, Amount: amt})
}

// settleResponse: effects of an accepted response to request (fee, consumer, provider binding)
func (e *Expect) settleResponse(w *World, pre *Snapshot, reqID string, fee int64, consumer, service, provHex, outClass string) {
	if outClass == "invalid" {
		e.move(w.RequestAcc, consumer, fee)
		e.slash(w, pre, reqID, service, provHex)
		e.Settled[reqID] = "refunded"
		return
	}
	tax := floorMul(fee, w.cfg.Tax)
	e.move(w.RequestAcc, w.FeeCollector, tax)
	e.Settled[reqID] = "paid"
}

// ExpectedEffects returns the expected money movements of a successful step (nil Delta entries
// mean zero). For failed steps everything is zero.
func ExpectedEffects(w *World, m *Model, r *StepRec) *Expect {
	e := newExpect()
	if !r.OK {
		return e
	}
	a, pre, post := r.Action, r.Pre, r.Post
	switch a.Kind {
	case KBind, KUpdateBind, KEnable:
		if a.Deposit != nil {
			e.move(a.Signer, w.DepositAcc, *a.Deposit)
		}
		bk := bkey(a.Service, a.Provider)
		if b, ok := pre.Binds[bk]; ok {
			d := stakeOf(b.Deposit)
			if a.Deposit != nil {
				d += *a.Deposit
			}
			e.DepositPost[bk] = d
		} else if a.Deposit != nil {
			e.DepositPost[bk] = *a.Deposit
		}
	case KRefundDep:
		bk := bkey(a.Service, a.Provider)
		if b, ok := pre.Binds[bk]; ok {
			e.move(w.DepositAcc, hx(b.Owner), stakeOf(b.Deposit))
			e.DepositPost[bk] = 0
		}
	case KRespond:
		if rq, ok := pre.Reqs[a.ReqID]; ok {
			rc := pre.Ctxs[hx(rq.RequestContextId)]
			e.settleResponse(w, pre, a.ReqID, stakeOf(rq.ServiceFee), hx(rc.Consumer), rc.ServiceName, hx(rq.Provider), a.OutClass)
		}
	case KWithdraw:
		var x int64
		if a.Provider != "" {
			x = pre.EarnedOf(a.Provider)
		} else {
			x = pre.OwnerEarn[a.Signer]
		}
		to := a.Signer
		if wa, ok := pre.Withdraw[a.Signer]; ok {
			to = wa
		}
		e.move(w.RequestAcc, to, x)
	case KCall:
		// only the synchronous module-service branch moves money
		for _, id := range NewReqs(r) {
			rq := post.Reqs[id]
			rc := post.Ctxs[hx(rq.RequestContextId)]
			fee := stakeOf(rq.ServiceFee)
			e.move(hx(rc.Consumer), w.RequestAcc, fee)
			if _, answered := post.Resps[id]; answered {
				cls := "valid"
				if len(r.ModOuts) > 0 {
					cls = r.ModOuts[0].Class
				}
				e.settleResponse(w, pre, id, fee, hx(rc.Consumer), rc.ServiceName, hx(rq.Provider), cls)
			}
		}
	case KRestart:
		// every pending fee returns to its consumer, every unwithdrawn earning goes to its provider
		for _, id := range sortedKeys(pre.ActiveID) {
			rq, ok := pre.Reqs[id]
			if !ok {
				continue
			}
			if rc, ok := pre.Ctxs[hx(rq.RequestContextId)]; ok {
				e.move(w.RequestAcc, hx(rc.Consumer), stakeOf(rq.ServiceFee))
				e.Settled[id] = "refunded"
			}
		}
		for _, en := range pre.Earned {
			e.move(w.RequestAcc, en.Provider, en.Amount)
		}
	case KEndBlock:
		// phase 1: every pending request whose expiry block this is
		for _, ri := range m.Expiring(r.Height) {
			if ri.Super {
				continue
			}
			e.move(w.RequestAcc, ri.Consumer, ri.Fee)
			e.slash(w, pre, ri.ID, ri.Service, ri.Provider)
			e.Settled[ri.ID] = "refunded"
		}
		// phase 2: the fees of the requests issued in this block
		for _, id := range NewReqs(r) {
			rq := post.Reqs[id]
			rc, ok := post.Ctxs[hx(rq.RequestContextId)]
			if !ok {
				rc = pre.Ctxs[hx(rq.RequestContextId)]
			}
			e.move(hx(rc.Consumer), w.RequestAcc, stakeOf(rq.ServiceFee))
		}
	}
	return e
}

// balanceDiff lists the accounts whose balance changed, with the change.
func balanceDiff(pre, post *Snapshot) map[string]int64 {
	out := map[string]int64{}
	for a, v := range post.Bal {
		if d := v - pre.Bal[a]; d != 0 {
			out[a] = d
		}
	}
	for a, v := range pre.Bal {
		if _, ok := post.Bal[a]; !ok && v != 0 {
			out[a] = -v
		}
	}
	return out
}

func sortedAddrs(ms ...map[string]int64) []string {
	set := map[string]bool{}
	for _, m := range ms {
		for k := range m {
			set[k] = true
		}
	}
	var out []string
	for k := range set {
		out = append(out, k)
	}
	sort.Strings(out)
	return out
}
