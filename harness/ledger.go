package harness

import (
	"sort"
)

// Expected money movements of one step, computed from the state before the step, the action
// and the harness's model - never from the module's own functions. Used by the ledger oracles
// (C02 settlement, C03 deposits, C04 slashing, C05 debits).

type SlashExp struct {
	ReqID    string
	Service  string
	Provider string // hex
	Amount   int64
}

type Expect struct {
	denom       string           // the denomination all amounts below are in
	Delta       map[string]int64 // account hex -> expected balance change
	Supply      int64            // expected change of total supply
	Slashes     []SlashExp
	DepositPost map[string]int64 // bkey -> expected deposit after the step, for every binding touched
	Settled     map[string]string // request id -> "paid" | "refunded"
	Notes       []string
}

func newExpect() *Expect { return newExpectIn("stake") }

func newExpectIn(denom string) *Expect {
	return &Expect{denom: denom, Delta: map[string]int64{}, DepositPost: map[string]int64{}, Settled: map[string]string{}}
}

// depositSent: the amount of e's denomination the action sends as a deposit
func (e *Expect) depositSent(a Action) int64 {
	if a.Deposit == nil {
		return 0
	}
	d := a.DepDenom
	if d == "" {
		d = "stake"
	}
	if d != e.denom {
		return 0
	}
	return *a.Deposit
}

func (e *Expect) move(from, to string, amt int64) {
	if amt == 0 {
		return
	}
	e.Delta[from] -= amt
	e.Delta[to] += amt
}

// slash applies one slash to the binding's expected deposit and returns the burned amount
func (e *Expect) slash(w *World, pre *Snapshot, reqID, service, provHex string) {
	bk := bkey(service, provHex)
	dep, ok := e.DepositPost[bk]
	if !ok {
		b, found := pre.Binds[bk]
		if !found {
			return
		}
		dep = amtIn(b.Deposit, e.denom)
	}
	amt := floorMul(dep, w.cfg.Slash)
	if w.cfg.baseDenom() != e.denom {
		// a slash takes the fraction of the deposit's amount of the base denomination: the part of
		// a deposit held in another denomination is not touched
		amt = 0
	}
	e.DepositPost[bk] = dep - amt
	e.Delta[w.DepositAcc] -= amt
	e.Supply -= amt
	e.Slashes = append(e.Slashes, SlashExp{ReqID: reqID, Service: service, Provider: provHex, Amount: amt})
}

// settleResponse: effects of an accepted response to request (fee, consumer, provider binding)
func (e *Expect) settleResponse(w *World, pre *Snapshot, reqID string, fee int64, consumer, service, provHex, outClass string) {
	if outClass == "invalid" {
		e.move(w.RequestAcc, consumer, fee)
		e.slash(w, pre, reqID, service, provHex)
		e.Settled[reqID] = "refunded"
		return
	}
	tax := floorMul(fee, w.cfg.Tax)
	e.move(w.RequestAcc, w.FeeCollector, tax)
	e.Settled[reqID] = "paid"
}

// ExpectedEffects returns the expected money movements of a successful step (nil Delta entries
// mean zero). For failed steps everything is zero.
func ExpectedEffects(w *World, m *Model, r *StepRec) *Expect { return ExpectedEffectsIn(w, m, r, "stake") }

// ExpectedEffectsIn: the same in one denomination (the harness's worlds hold at most two coins)
func ExpectedEffectsIn(w *World, m *Model, r *StepRec, denom string) *Expect {
	e := newExpectIn(denom)
	if !r.OK {
		return e
	}
	a, pre, post := r.Action, r.Pre, r.Post
	switch a.Kind {
	case KBind, KUpdateBind, KEnable:
		sent := e.depositSent(a)
		e.move(a.Signer, w.DepositAcc, sent)
		bk := bkey(a.Service, a.Provider)
		if b, ok := pre.Binds[bk]; ok {
			e.DepositPost[bk] = amtIn(b.Deposit, denom) + sent
		} else if a.Deposit != nil {
			e.DepositPost[bk] = sent
		}
	case KRefundDep:
		bk := bkey(a.Service, a.Provider)
		if b, ok := pre.Binds[bk]; ok {
			e.move(w.DepositAcc, hx(b.Owner), amtIn(b.Deposit, denom))
			e.DepositPost[bk] = 0
		}
	case KRespond:
		if rq, ok := pre.Reqs[a.ReqID]; ok {
			rc := pre.Ctxs[hx(rq.RequestContextId)]
			e.settleResponse(w, pre, a.ReqID, amtIn(rq.ServiceFee, denom), hx(rc.Consumer), rc.ServiceName, hx(rq.Provider), a.OutClass)
		}
	case KWithdraw:
		var x int64
		if a.Provider != "" {
			x = pre.EarnedOfIn(a.Provider, denom)
		} else {
			x = pre.ownerEarnIn(denom)[a.Signer]
		}
		to := a.Signer
		if wa, ok := pre.Withdraw[a.Signer]; ok {
			to = wa
		}
		e.move(w.RequestAcc, to, x)
	case KCall:
		// only the synchronous module-service branch moves money
		for _, id := range NewReqs(r) {
			rq := post.Reqs[id]
			rc := post.Ctxs[hx(rq.RequestContextId)]
			fee := amtIn(rq.ServiceFee, denom)
			e.move(hx(rc.Consumer), w.RequestAcc, fee)
			if _, answered := post.Resps[id]; answered {
				cls := "valid"
				if len(r.ModOuts) > 0 {
					cls = r.ModOuts[0].Class
				}
				e.settleResponse(w, pre, id, fee, hx(rc.Consumer), rc.ServiceName, hx(rq.Provider), cls)
			}
		}
	case KRestart:
		// every pending fee returns to its consumer, every unwithdrawn earning goes to its provider
		for _, id := range sortedKeys(pre.ActiveID) {
			rq, ok := pre.Reqs[id]
			if !ok {
				continue
			}
			if rc, ok := pre.Ctxs[hx(rq.RequestContextId)]; ok {
				e.move(w.RequestAcc, hx(rc.Consumer), amtIn(rq.ServiceFee, denom))
				e.Settled[id] = "refunded"
			}
		}
		for _, en := range pre.Earned {
			if en.Denom == denom {
				e.move(w.RequestAcc, en.Provider, en.Amount)
			}
		}
	case KEndBlock:
		// phase 1: every pending request whose expiry block this is
		for _, ri := range m.Expiring(r.Height) {
			if ri.Super {
				continue
			}
			e.move(w.RequestAcc, ri.Consumer, ri.feeIn(denom))
			e.slash(w, pre, ri.ID, ri.Service, ri.Provider)
			e.Settled[ri.ID] = "refunded"
		}
		// phase 2: the fees of the requests issued in this block
		for _, id := range NewReqs(r) {
			rq := post.Reqs[id]
			rc, ok := post.Ctxs[hx(rq.RequestContextId)]
			if !ok {
				rc = pre.Ctxs[hx(rq.RequestContextId)]
			}
			e.move(hx(rc.Consumer), w.RequestAcc, amtIn(rq.ServiceFee, denom))
		}
	}
	return e
}

// balanceDiff lists the accounts whose balance changed, with the change.
func balanceDiff(pre, post *Snapshot) map[string]int64 { return balanceDiffIn(pre, post, "stake") }

func balanceDiffIn(pre, post *Snapshot, denom string) map[string]int64 {
	out := map[string]int64{}
	pb, qb := pre.balIn(denom), post.balIn(denom)
	for a, v := range qb {
		if d := v - pb[a]; d != 0 {
			out[a] = d
		}
	}
	for a, v := range pb {
		if _, ok := qb[a]; !ok && v != 0 {
			out[a] = -v
		}
	}
	return out
}

func sortedAddrs(ms ...map[string]int64) []string {
	set := map[string]bool{}
	for _, m := range ms {
		for k := range m {
			set[k] = true
		}
	}
	var out []string
	for k := range set {
		out = append(out, k)
	}
	sort.Strings(out)
	return out
}
