package harness

import (
	"sort"

	"github.com/irismod/service/types"
)

// ReqInfo is what the harness remembers about every request it ever saw issued.
type ReqInfo struct {
	ID       string
	Ctx      string
	Batch    uint64
	Provider string // hex
	Consumer string // hex
	Service  string
	Fee      int64 // in stake
	FeeP     int64 // in the second coin ("point")
	Super    bool
	Module   string
	IssueH   int64
	ExpH     int64  // expiration height as recorded on the request
	Status   string // pending | answered | expired
	OutClass string // class of the accepted response's output
	Index    int    // position in the batch (from ID order at issue)
}

// Model is the harness's memory of the history (updated after the oracles have seen a step, so
// that during Oracle.Step it describes the state before the step).
type Model struct {
	Reqs  map[string]*ReqInfo
	Order []string
}

func NewModel() *Model { return &Model{Reqs: map[string]*ReqInfo{}} }

// NewReqs lists the requests that first appear in this step, sorted by ID.
func NewReqs(r *StepRec) []string {
	var out []string
	for id := range r.Post.Reqs {
		if _, ok := r.Pre.Reqs[id]; !ok {
			out = append(out, id)
		}
	}
	sort.Strings(out)
	return out
}

func reqInfoFrom(id string, cr types.CompactRequest, s *Snapshot) *ReqInfo {
	ri := &ReqInfo{ID: id, Ctx: hx(cr.RequestContextId), Batch: cr.RequestContextBatchCounter, Provider: hx(cr.Provider),
		Fee: stakeOf(cr.ServiceFee), FeeP: amtIn(cr.ServiceFee, "point"), IssueH: cr.RequestHeight, ExpH: cr.ExpirationHeight, Status: "pending"}
	if rc, ok := s.Ctxs[ri.Ctx]; ok {
		ri.Consumer = hx(rc.Consumer)
		ri.Service = rc.ServiceName
		ri.Super = rc.SuperMode
		ri.Module = rc.ModuleName
	}
	return ri
}

func (m *Model) Observe(r *StepRec) {
	if !r.OK {
		return
	}
	for i, id := range NewReqs(r) {
		ri := reqInfoFrom(id, r.Post.Reqs[id], r.Post)
		ri.Index = i
		m.Reqs[id] = ri
		m.Order = append(m.Order, id)
		if _, answered := r.Post.Resps[id]; answered { // synchronous module-service answer
			ri.Status = "answered"
			if len(r.ModOuts) > 0 {
				ri.OutClass = r.ModOuts[0].Class
			}
		}
	}
	switch r.Action.Kind {
	case KRespond:
		if ri, ok := m.Reqs[r.Action.ReqID]; ok {
			ri.Status = "answered"
			ri.OutClass = r.Action.OutClass
		}
	case KEndBlock:
		for _, ri := range m.Reqs {
			if ri.Status == "pending" && ri.ExpH == r.Height {
				ri.Status = "expired"
			}
		}
	case KRestart:
		for _, ri := range m.Reqs {
			if ri.Status == "pending" {
				ri.Status = "refunded_at_restart"
			}
		}
	}
}

// Expiring lists the pending requests whose expiry block is h, sorted by ID.
func (m *Model) Expiring(h int64) []*ReqInfo {
	var out []*ReqInfo
	for _, id := range m.Order {
		ri := m.Reqs[id]
		if ri.Status == "pending" && ri.ExpH == h {
			out = append(out, ri)
		}
	}
	sort.Slice(out, func(i, j int) bool { return out[i].ID < out[j].ID })
	return out
}

func (m *Model) Pending() []*ReqInfo {
	var out []*ReqInfo
	for _, id := range m.Order {
		if ri := m.Reqs[id]; ri.Status == "pending" {
			out = append(out, ri)
		}
	}
	return out
}

func (ri *ReqInfo) feeIn(denom string) int64 {
	if denom == "point" {
		return ri.FeeP
	}
	return ri.Fee
}
