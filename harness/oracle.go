package harness

import (
	"crypto/sha256"
	"encoding/json"
	"fmt"
	"os"
	"path/filepath"
	"sort"
	"strings"
)

// Violation of a property, found by an oracle. Sig is a trigger signature computed from the
// context of the failing step (not from the symptom) and is what known_findings.json lists.
type Violation struct {
	Prop string `json:"prop"`
	Msg  string `json:"msg"`
	Sig  string `json:"sig,omitempty"`
}

func (v Violation) String() string { return fmt.Sprintf("[%s] %s (sig=%q)", v.Prop, v.Msg, v.Sig) }

// Oracle decides one property over a history. Step is called after every executed
// single-message step / end-block (committed multi-message transactions are fed message by
// message); End after the last step.
type Oracle interface {
	Step(r *StepRec) []Violation
	End() []Violation
	// Classes: counters classifying what this case exercised; NonTrivial: the stated rule
	Classes() map[string]int
	NonTrivial() bool
}

// base for oracles
type oracleBase struct {
	prop string
	w    *World
	cls  map[string]int
	vs   []Violation
}

func newBase(prop string, w *World) oracleBase {
	return oracleBase{prop: prop, w: w, cls: map[string]int{}}
}

func (b *oracleBase) hit(c string)            { b.cls[c]++ }
func (b *oracleBase) Classes() map[string]int { return b.cls }
func (b *oracleBase) End() []Violation        { return nil }
func (b *oracleBase) fail(sig string, f string, a ...interface{}) {
	b.vs = append(b.vs, Violation{Prop: b.prop, Msg: fmt.Sprintf(f, a...), Sig: sig})
}
func (b *oracleBase) take() []Violation {
	v := b.vs
	b.vs = nil
	return v
}

// ---------------------------------------------------------------------------------------------
// known findings

type KnownFinding struct {
	Property string `json:"property"`
	Sig      string `json:"signature"`
	What     string `json:"what"`
}

type KnownFile struct {
	Findings []KnownFinding `json:"findings"`
	Fixed    []string       `json:"fixed"`
}

func LoadKnown() KnownFile {
	var kf KnownFile
	p := os.Getenv("VERIF_KNOWN")
	if p == "" {
		p = "../known_findings.json"
	}
	bz, err := os.ReadFile(p)
	if err != nil {
		return kf
	}
	if err := json.Unmarshal(bz, &kf); err != nil {
		panic("harness: known_findings.json: " + err.Error())
	}
	return kf
}

func (kf KnownFile) Match(v Violation) *KnownFinding {
	if v.Sig == "" {
		return nil
	}
	for i := range kf.Findings {
		f := &kf.Findings[i]
		if f.Property == v.Prop && f.Sig == v.Sig {
			return f
		}
	}
	return nil
}

// ---------------------------------------------------------------------------------------------
// replay files

type Replay struct {
	Prop      string     `json:"property"`
	Seed      uint64     `json:"seed,omitempty"`
	Config    Config     `json:"config"`
	Focus     Focus      `json:"focus"`
	Actions   []Action   `json:"actions"`
	Violation *Violation `json:"violation,omitempty"`
	Extra     string     `json:"extra,omitempty"` // property-specific trailer (queries, export point ...)
}

func WriteReplay(path string, r Replay) {
	_ = os.MkdirAll(filepath.Dir(path), 0o755)
	bz, _ := json.MarshalIndent(r, "", " ")
	_ = os.WriteFile(path, bz, 0o644)
}

func ReadReplay(path string) (Replay, error) {
	var r Replay
	bz, err := os.ReadFile(path)
	if err != nil {
		return r, err
	}
	err = json.Unmarshal(bz, &r)
	return r, err
}

func actionsHash(cfg Config, as []Action) string {
	h := sha256.New()
	bz, _ := json.Marshal(cfg)
	h.Write(bz)
	bz, _ = json.Marshal(as)
	h.Write(bz)
	return hx(h.Sum(nil)[:10])
}

// ---------------------------------------------------------------------------------------------
// statistics of a run (one process / shard); merged by the driver into the evidence file

type Stats struct {
	Prop           string           `json:"property"`
	Evaluations    int              `json:"evaluations"`
	Steps          int              `json:"steps"`
	NonTrivial     []string         `json:"nontrivial_hashes"`
	Classes        map[string]int   `json:"classes"`         // number of cases in which the class occurred
	ClassTotals    map[string]int   `json:"class_totals"`    // total occurrences
	ActionKinds    map[string]int   `json:"action_kinds"`    // executed actions per kind
	ActionOK       map[string]int   `json:"action_ok"`       // ... of which succeeded
	ExcludedKnown  int              `json:"excluded_known"`  // cases abandoned at a listed known finding
	KnownHits      map[string]int   `json:"known_hits"`      // signature -> count
	KnownWhat      map[string]string `json:"known_what"`
	Samples        []json.RawMessage `json:"samples"`
	Violations     []Violation      `json:"violations"`
	ReplayPath     string           `json:"replay_path,omitempty"`
	Extra          map[string]int   `json:"extra,omitempty"`
	ntSeen         map[string]bool
	frozen         bool
}

func NewStats(prop string) *Stats {
	return &Stats{Prop: prop, Classes: map[string]int{}, ClassTotals: map[string]int{}, ActionKinds: map[string]int{},
		ActionOK: map[string]int{}, KnownHits: map[string]int{}, KnownWhat: map[string]string{}, ntSeen: map[string]bool{}, Extra: map[string]int{}}
}

func (s *Stats) AddNonTrivial(hash string) {
	if !s.ntSeen[hash] {
		s.ntSeen[hash] = true
		s.NonTrivial = append(s.NonTrivial, hash)
	}
}

func (s *Stats) AddClasses(c map[string]int) {
	for k, v := range c {
		if v > 0 {
			s.Classes[k]++
			s.ClassTotals[k] += v
		}
	}
}

func (s *Stats) AddSample(v interface{}) {
	if len(s.Samples) >= 3 {
		return
	}
	bz, _ := json.Marshal(v)
	s.Samples = append(s.Samples, bz)
}

func (s *Stats) Write(path string) {
	if path == "" {
		return
	}
	sort.Strings(s.NonTrivial)
	bz, _ := json.MarshalIndent(s, "", " ")
	_ = os.MkdirAll(filepath.Dir(path), 0o755)
	_ = os.WriteFile(path, bz, 0o644)
}

func short(s string) string {
	if len(s) > 12 {
		return s[:6] + ".." + s[len(s)-4:]
	}
	return s
}

func joinInts(xs []int64) string {
	ss := make([]string, len(xs))
	for i, x := range xs {
		ss[i] = fmt.Sprint(x)
	}
	return strings.Join(ss, ",")
}
