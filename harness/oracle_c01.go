package harness

// C01 — escrowed service fees are always exactly backed.
//
// After every step: balance(request escrow) == Σ fee(request) over pending markers + Σ provider
// earned-fee records. Owner records are a second view of the same money and are not added.

type c01 struct {
	oracleBase
	m *Model
}

func newC01(w *World, m *Model) *c01 { return &c01{oracleBase: newBase("C01", w), m: m} }

func obligations(s *Snapshot) (pending, earned int64) { return obligationsIn(s, "stake") }

// obligationsIn: pending fees and unwithdrawn earnings recorded in one denomination
func obligationsIn(s *Snapshot, denom string) (pending, earned int64) {
	// a request awaits a response while either of the two pending-request indexes (by id, by binding) lists it
	awaiting := map[string]bool{}
	for id := range s.ActiveID {
		awaiting[id] = true
	}
	for _, e := range s.ActiveB {
		awaiting[e.ReqID] = true
	}
	for id := range awaiting {
		if r, ok := s.Reqs[id]; ok {
			pending += mustI64(r.ServiceFee.AmountOf(denom))
		}
	}
	for _, e := range s.Earned {
		if e.Denom == denom {
			earned += e.Amount
		}
	}
	return
}

func (o *c01) Step(r *StepRec) []Violation {
	s := r.Post
	pending, earned := obligations(s)
	escrow := s.Bal[o.w.RequestAcc]
	if escrow != pending+earned {
		o.fail(c01Sig(r), "escrow %d != pending fees %d + earned %d after %s (ok=%v)", escrow, pending, earned, r.Action.Kind, r.OK)
	}
	// the same in the second coin, where one exists
	if pp, pe := obligationsIn(s, "point"); s.BalP[o.w.RequestAcc] != pp+pe {
		o.fail(c01Sig(r), "escrow holds %d point != pending fees %d + earned %d (point) after %s (ok=%v)", s.BalP[o.w.RequestAcc], pp, pe, r.Action.Kind, r.OK)
	} else if pp+pe > 0 {
		o.hit("obligations_in_second_coin")
		if pending+earned > 0 {
			o.hit("obligations_in_both_coins")
		}
	}
	// classification
	if r.OK {
		switch r.Action.Kind {
		case KEndBlock:
			var tot int64
			for _, id := range NewReqs(r) {
				tot += stakeOf(r.Post.Reqs[id].ServiceFee)
			}
			if tot > 0 {
				o.hit("paid_batch")
			}
			for _, ri := range o.m.Expiring(r.Height) {
				if ri.Fee > 0 && !ri.Super {
					o.hit("expiry_refund")
				}
			}
			for id, pre := range r.Pre.Ctxs {
				if post, ok := r.Post.Ctxs[id]; ok && pre.State == 0 && post.State == 1 {
					o.hit("insufficient_funds_pause")
				}
			}
			for _, id := range NewReqs(r) {
				rq := r.Post.Reqs[id]
				if b, ok := r.Post.Binds[bkey(r.Post.Ctxs[hx(rq.RequestContextId)].ServiceName, hx(rq.Provider))]; ok {
					if rp, err := ParseRefPricing(b.Pricing); err == nil && stakeOf(rq.ServiceFee) == 1 && rp.Base != 1 {
						o.hit("subunit_price")
					}
				}
			}
		case KRespond:
			if r.Action.OutClass == "invalid" {
				o.hit("malformed_response")
			} else {
				o.hit("accepted_response")
			}
		case KWithdraw:
			if r.Pre.Bal[o.w.RequestAcc] != r.Post.Bal[o.w.RequestAcc] {
				o.hit("withdrawal")
			}
		case KCall:
			if r.Action.Service == ModSvcName {
				o.hit("module_service_call")
			}
		}
	}
	return o.take()
}

// c01Sig: trigger signature from the step's context
func c01Sig(r *StepRec) string {
	return "c01:" + r.Action.Kind
}

func (o *c01) NonTrivial() bool {
	c := o.cls
	return c["paid_batch"] > 0 && (c["accepted_response"]+c["expiry_refund"]+c["withdrawal"]+c["insufficient_funds_pause"]+
		c["subunit_price"]+c["malformed_response"]) > 0
}
