package harness

import (
	"time"
)

// ---------------------------------------------------------------------------------------------
// C02 — each paid request is settled exactly once, to the right party.
//
// Exact balance-delta accounting of every account over every step, plus the provider earnings
// records, against expectations computed from the pre-state, the action and the model.

type c02 struct {
	oracleBase
	m *Model
}

func newC02(w *World, m *Model) *c02 { return &c02{oracleBase: newBase("C02", w), m: m} }

func (o *c02) Step(r *StepRec) []Violation {
	// "if its designated provider responds in time ... the fee ... is added to that provider's earnings": a
	// stateless-valid response by the designated provider to a request that still awaits one is a settlement
	// and must go through (refused, the fee would go back to the consumer at expiry although the provider answered)
	if a := r.Action; a.Kind == KRespond && !r.OK && r.VBErr == "" && !r.InTx {
		if ri, known := o.m.Reqs[a.ReqID]; known && ri.Status == "pending" && a.Signer == ri.Provider {
			o.fail("c02:response_refused", "the designated provider's response to the pending request %s (fee %d) was refused at height %d (expiry %d): %s%s",
				short(a.ReqID), ri.Fee, r.Height, ri.ExpH, r.Err, r.Panic)
		}
	}
	o.stepIn(r, "stake")
	if o.w.cfg.FundingPoint != nil {
		// the cases in which accounts hold a second coin: the same exact accounting in that coin
		o.stepIn(r, "point")
	}
	return o.take()
}

func (o *c02) stepIn(r *StepRec, denom string) {
	tag := ""
	if denom != "stake" {
		tag = "_in_second_coin"
	}
	e := ExpectedEffectsIn(o.w, o.m, r, denom)
	got := balanceDiffIn(r.Pre, r.Post, denom)
	for _, a := range sortedAddrs(got, e.Delta) {
		if got[a] != e.Delta[a] {
			o.fail("c02:"+r.Action.Kind, "account %s moved by %d %s, expected %d in %s (ok=%v)", short(a), got[a], denom, e.Delta[a], r.Action.Kind, r.OK)
			break
		}
	}
	if ds := r.Post.supplyIn(denom) - r.Pre.supplyIn(denom); ds != e.Supply {
		o.fail("c02:"+r.Action.Kind, "supply of %s moved by %d, expected %d in %s", denom, ds, e.Supply, r.Action.Kind)
	}
	if !r.OK {
		return
	}
	// settle-once: a response is accepted only for a request the model still has pending
	if r.Action.Kind == KRespond && denom == "stake" {
		ri, ok := o.m.Reqs[r.Action.ReqID]
		if !ok || ri.Status != "pending" {
			st := "unknown"
			if ok {
				st = ri.Status
			}
			o.fail("c02:respond", "response accepted for a request that is %s: second settlement", st)
		}
	}
	// provider earnings: +fee-tax exactly for the paid requests of this step, nothing else
	feeOf := func(id string) (int64, string) {
		if ri, ok := o.m.Reqs[id]; ok {
			return ri.feeIn(denom), ri.Provider
		} else if rq, ok := r.Post.Reqs[id]; ok { // module-service request issued in this very step
			return amtIn(rq.ServiceFee, denom), hx(rq.Provider)
		}
		return 0, ""
	}
	expEarn := map[string]int64{}
	for id, how := range e.Settled {
		if how != "paid" {
			continue
		}
		fee, prov := feeOf(id)
		expEarn[prov] += fee - floorMul(fee, o.w.cfg.Tax)
	}
	if r.Action.Kind == KWithdraw || r.Action.Kind == KRestart {
		// withdrawals reduce earnings (C13's business); a restart pays all of them out (C19's)
		expEarn = nil
	}
	if expEarn != nil {
		gotEarn := map[string]int64{}
		provs := map[string]bool{}
		for _, x := range r.Pre.Earned {
			provs[x.Provider] = true
		}
		for _, x := range r.Post.Earned {
			provs[x.Provider] = true
		}
		for p := range provs {
			if d := r.Post.EarnedOfIn(p, denom) - r.Pre.EarnedOfIn(p, denom); d != 0 {
				gotEarn[p] = d
			}
		}
		for _, p := range sortedAddrs(gotEarn, expEarn) {
			if gotEarn[p] != expEarn[p] {
				o.fail("c02:earn:"+r.Action.Kind, "earnings of %s changed by %d %s, expected %d in %s", short(p), gotEarn[p], denom, expEarn[p], r.Action.Kind)
				break
			}
		}
	}
	for id, how := range e.Settled {
		fee, _ := feeOf(id)
		if fee > 0 {
			o.hit(how + tag)
			if denom != "stake" {
				continue
			}
			if how == "refunded" && r.Action.Kind == KEndBlock {
				o.hit("refund_by_expiry")
			}
			if how == "refunded" && r.Action.Kind != KEndBlock {
				o.hit("refund_by_malformed")
			}
			if fee == 1 {
				o.hit("fee_of_one")
			}
		}
	}
}

func (o *c02) NonTrivial() bool { return o.cls["paid"] > 0 && o.cls["refunded"] > 0 }

// ---------------------------------------------------------------------------------------------
// C03 — binding deposits stay in custody and leave only by the rules.

type c03 struct {
	oracleBase
	m       *Model
	slashed map[string]bool // bindings slashed at least once
	refTry  map[string]int  // refund attempts per binding
	// disabledAt: block time (ns) of the step in which the binding was last seen to go from available to
	// unavailable - the disabling time the refund rule speaks of, whatever the record says
	disabledAt map[string]int64
}

func newC03(w *World, m *Model) *c03 {
	return &c03{oracleBase: newBase("C03", w), m: m, slashed: map[string]bool{}, refTry: map[string]int{}, disabledAt: map[string]int64{}}
}

func sumDeposits(s *Snapshot) int64 {
	var t int64
	for _, b := range s.Binds {
		t += stakeOf(b.Deposit)
	}
	return t
}

func (o *c03) Step(r *StepRec) []Violation {
	a, pre, post := r.Action, r.Pre, r.Post
	if got, want := post.Bal[o.w.DepositAcc], sumDeposits(post); got != want {
		o.fail("c03:custody:"+a.Kind, "deposit account holds %d, bindings record %d after %s", got, want, a.Kind)
	}
	// the same in the second coin, where one exists (everything below reads the "stake" part of
	// a deposit: a slash takes only the base denomination, a refund returns every coin)
	var wantP int64
	for _, b := range post.Binds {
		wantP += mustI64(b.Deposit.AmountOf("point"))
	}
	if got := post.BalP[o.w.DepositAcc]; got != wantP {
		o.fail("c03:custody:"+a.Kind, "deposit account holds %d point, bindings record %d point after %s", got, wantP, a.Kind)
	} else if wantP > 0 {
		o.hit("deposits_in_second_coin")
	}
	refundable := func(bk string) (bool, int64) {
		b, ok := pre.Binds[bk]
		if !ok {
			return false, 0
		}
		// time.Time arithmetic (two separate additions): the sum of the two periods may not fit in one Duration
		disabled := b.DisabledTime
		if at, seen := o.disabledAt[bk]; seen && time.Unix(0, at).After(disabled) {
			disabled = time.Unix(0, at).UTC() // the record claims an earlier disabling than the one observed
		}
		instT := disabled.Add(time.Duration(o.w.cfg.ArbitrationNs)).Add(time.Duration(o.w.cfg.ComplaintNs))
		now := time.Unix(0, r.TimeNs)
		inst := instT.UnixNano()
		if instT.Year() > 2250 {
			inst = 1<<63 - 1 // beyond what UnixNano can express: far in the future
		}
		return !b.Available && stakeOf(b.Deposit) > 0 && !now.Before(instT), inst
	}
	if a.Kind == KRefundDep {
		bk := bkey(a.Service, a.Provider)
		if b, ok := pre.Binds[bk]; ok {
			o.refTry[bk]++
			if o.refTry[bk] > 1 {
				o.hit("repeated_refund_attempt")
			}
			if o.slashed[bk] {
				o.hit("refund_after_slash")
			}
			_, inst := refundable(bk)
			if !b.Available && (inst-r.TimeNs <= 5e9 && r.TimeNs-inst <= 5e9) {
				o.hit("refund_near_instant")
				if inst == r.TimeNs {
					o.hit("refund_exactly_at_instant")
				}
				if inst == r.TimeNs+1 {
					o.hit("refund_1ns_early")
				}
			}
			if r.OK {
				o.hit("refund_ok")
			}
		}
	}
	if !r.OK {
		return o.take()
	}
	for bk, pb := range post.Binds {
		if preB, existed := pre.Binds[bk]; existed && preB.Available && !pb.Available {
			o.disabledAt[bk] = r.TimeNs
		}
	}
	e := ExpectedEffects(o.w, o.m, r)
	for _, s := range e.Slashes {
		o.slashed[bkey(s.Service, s.Provider)] = true
	}
	supplyFall := pre.Supply - post.Supply
	var decreasedBySlash int64
	for bk, pb := range post.Binds {
		preB, existed := pre.Binds[bk]
		d0, d1 := int64(0), stakeOf(pb.Deposit)
		if existed {
			d0 = stakeOf(preB.Deposit)
		}
		switch {
		case d1 > d0:
			// growth: only by the owner's bind/update/enable of this very binding, by the sent amount
			ok := (a.Kind == KBind || a.Kind == KUpdateBind || a.Kind == KEnable) && bkey(a.Service, a.Provider) == bk &&
				a.Deposit != nil && *a.Deposit == d1-d0 && a.Signer == hx(pb.Owner)
			if !ok {
				o.fail("c03:grow:"+a.Kind, "deposit of %s grew by %d in %s", bk, d1-d0, a.Kind)
			} else if pre.Bal[a.Signer]-post.Bal[a.Signer] != d1-d0 {
				o.fail("c03:grow:"+a.Kind, "deposit of %s grew by %d but owner was debited %d", bk, d1-d0, pre.Bal[a.Signer]-post.Bal[a.Signer])
			}
		case d1 < d0:
			if a.Kind == KRefundDep && bkey(a.Service, a.Provider) == bk {
				can, inst := refundable(bk)
				if d1 != 0 {
					o.fail("c03:refund", "refund left %d on the binding", d1)
				}
				if !can {
					o.fail("c03:refund", "refund succeeded although not refundable (available=%v deposit=%d now=%d refundable_at=%d)",
						preB.Available, d0, r.TimeNs, inst)
				}
				if a.Signer != hx(preB.Owner) || post.Bal[a.Signer]-pre.Bal[a.Signer] != d0 {
					o.fail("c03:refund", "refund of %d paid %d to signer %s (owner %s)", d0, post.Bal[a.Signer]-pre.Bal[a.Signer], short(a.Signer), short(hx(preB.Owner)))
				}
			} else {
				// must be slashes: only steps that can slash, and the coins are destroyed
				if exp, ok := e.DepositPost[bk]; !ok || len(e.Slashes) == 0 {
					o.fail("c03:shrink:"+a.Kind, "deposit of %s shrank by %d in %s without a slash or refund", bk, d0-d1, a.Kind)
				} else if exp != d1 {
					// exact amounts are C04's business; C03 only requires destruction == decrease
					_ = exp
				}
				decreasedBySlash += d0 - d1
			}
		}
	}
	if decreasedBySlash != supplyFall {
		o.fail("c03:burn:"+a.Kind, "deposits shrank by %d through slashing but supply fell by %d", decreasedBySlash, supplyFall)
	}
	if o.w.cfg.FundingPoint != nil {
		o.secondCoin(r, e)
	}
	return o.take()
}

// secondCoin: the same rules for the "point" part of every deposit, in the cases where accounts hold
// that coin: it grows only by what the owner sends with a bind / update / enable of that binding
// (debited the same), shrinks only by a refund of everything or - while "point" is the base
// denomination - by floor(part * fraction) per slash, and what slashes take is destroyed.
func (o *c03) secondCoin(r *StepRec, e *Expect) {
	a, pre, post := r.Action, r.Pre, r.Post
	nSlash := map[string]int{}
	for _, s := range e.Slashes {
		nSlash[bkey(s.Service, s.Provider)]++
	}
	var burned int64
	for _, bk := range sortedKeys(post.Binds) {
		pb := post.Binds[bk]
		d0, d1 := int64(0), mustI64(pb.Deposit.AmountOf("point"))
		if preB, ok := pre.Binds[bk]; ok {
			d0 = mustI64(preB.Deposit.AmountOf("point"))
		}
		mine := bkey(a.Service, a.Provider) == bk
		switch {
		case d1 > d0:
			ok := (a.Kind == KBind || a.Kind == KUpdateBind || a.Kind == KEnable) && mine && a.DepDenom == "point" &&
				a.Deposit != nil && *a.Deposit == d1-d0 && a.Signer == hx(pb.Owner)
			if !ok {
				o.fail("c03:grow2:"+a.Kind, "the point part of the deposit of %s grew by %d in %s", bk, d1-d0, a.Kind)
			} else if pre.BalP[a.Signer]-post.BalP[a.Signer] != d1-d0 {
				o.fail("c03:grow2:"+a.Kind, "the point part of the deposit of %s grew by %d but the owner was debited %d point", bk, d1-d0, pre.BalP[a.Signer]-post.BalP[a.Signer])
			} else {
				o.hit("deposit_sent_in_second_coin")
			}
		case d1 < d0:
			if a.Kind == KRefundDep && mine {
				if d1 != 0 || post.BalP[a.Signer]-pre.BalP[a.Signer] != d0 {
					o.fail("c03:refund2", "refund left %d point on the binding and paid %d of %d point to the signer", d1, post.BalP[a.Signer]-pre.BalP[a.Signer], d0)
				} else {
					o.hit("refund_in_second_coin")
				}
				continue
			}
			k := nSlash[bk]
			if k == 0 || o.w.cfg.baseDenom() != "point" {
				o.fail("c03:shrink2:"+a.Kind, "the point part of the deposit of %s shrank by %d in %s without a refund or a slash in that denomination", bk, d0-d1, a.Kind)
				continue
			}
			want := d0
			for i := 0; i < k; i++ {
				want -= floorMul(want, o.w.cfg.Slash)
			}
			if d1 != want {
				o.fail("c03:slash2:"+a.Kind, "the point part of the deposit of %s is %d after %d slash(es) of fraction %s, expected %d (was %d)", bk, d1, k, o.w.cfg.Slash, want, d0)
			} else {
				o.hit("slash_in_second_coin")
			}
			burned += d0 - d1
		}
	}
	if fall := pre.SupplyP - post.SupplyP; fall != burned {
		o.fail("c03:burn2:"+a.Kind, "point deposits shrank by %d through slashing but the supply of point fell by %d", burned, fall)
	}
}

func (o *c03) NonTrivial() bool {
	return o.cls["refund_near_instant"] > 0 || o.cls["refund_after_slash"] > 0 || o.cls["repeated_refund_attempt"] > 0
}

// ---------------------------------------------------------------------------------------------
// C04 — providers are slashed exactly when they fail a request.

type c04 struct {
	oracleBase
	m *Model
}

func newC04(w *World, m *Model) *c04 { return &c04{oracleBase: newBase("C04", w), m: m} }

func (o *c04) Step(r *StepRec) []Violation {
	if !r.OK {
		return nil
	}
	a, pre, post := r.Action, r.Pre, r.Post
	e := ExpectedEffects(o.w, o.m, r)
	// 1. every binding's deposit: expected value where touched, unchanged elsewhere
	perBinding := map[string]int{}
	for _, s := range e.Slashes {
		perBinding[bkey(s.Service, s.Provider)]++
	}
	for bk, pb := range post.Binds {
		preB, existed := pre.Binds[bk]
		if !existed {
			continue
		}
		d0, d1 := stakeOf(preB.Deposit), stakeOf(pb.Deposit)
		want, touched := e.DepositPost[bk]
		if !touched {
			want = d0
		}
		if d1 != want {
			o.fail("c04:amount:"+a.Kind, "deposit of %s is %d after %s, expected %d (was %d, %d slash(es) due, fraction %s)",
				bk, d1, a.Kind, want, d0, perBinding[bk], o.w.cfg.Slash)
		}
		k := perBinding[bk]
		if k == 0 {
			continue
		}
		o.hit("slash")
		if k >= 2 {
			o.hit("multi_slash_one_binding_one_step")
		}
		if !preB.Available {
			o.hit("slash_unavailable_binding")
			if d0 == 0 {
				o.hit("slash_refunded_binding")
			}
			// only the amount matters; availability and disabling time must not change
			if pb.Available || !pb.DisabledTime.Equal(preB.DisabledTime) {
				o.fail("c04:state", "slash changed availability/disabled time of unavailable binding %s", bk)
			}
			continue
		}
		base := int64(0)
		if rp, err := ParseRefPricing(preB.Pricing); err == nil {
			base = o.w.cfg.InBase(rp)
		} else {
			continue
		}
		minDep := o.w.cfg.MinDepositFor(base)
		if want < minDep {
			o.hit("slash_disables")
			if pb.Available {
				o.fail("c04:disable", "binding %s still available with deposit %d below minimum %d after slash", bk, d1, minDep)
			} else if pb.DisabledTime.UnixNano() != r.TimeNs {
				o.fail("c04:disable", "binding %s disabled by slash with time %d, block time is %d", bk, pb.DisabledTime.UnixNano(), r.TimeNs)
			}
		} else {
			o.hit("slash_keeps_available")
			if !pb.Available && a.Kind != KDisable {
				o.fail("c04:disable", "binding %s became unavailable although deposit %d >= minimum %d", bk, d1, minDep)
			}
		}
	}
	// 2. supply: destroyed exactly the slashed coins
	if ds := post.Supply - pre.Supply; ds != e.Supply {
		o.fail("c04:burn:"+a.Kind, "supply moved by %d, expected %d", ds, e.Supply)
	}
	// (slash events are deliberately not compared: the property speaks of deposits and supply only)
	if o.w.cfg.Slash == "0" || o.w.cfg.Slash == "1" {
		if len(e.Slashes) > 0 {
			o.hit("slash_fraction_extreme")
		}
	}
	for _, ri := range o.m.Expiring(r.Height) {
		if a.Kind == KEndBlock && ri.Super {
			o.hit("super_mode_timeout_not_slashed")
		}
	}
	return o.take()
}

func (o *c04) NonTrivial() bool {
	return o.cls["multi_slash_one_binding_one_step"] > 0 || o.cls["slash_disables"] > 0 || o.cls["slash_unavailable_binding"] > 0
}

// ---------------------------------------------------------------------------------------------
// C05 — only the rightful party can act, and a message debits only its signer.

type c05 struct {
	oracleBase
	m     *Model
	wrong map[string]bool // message kinds attempted by a wrong signer against an existing target
	// ownerOf: the owner every provider got with its first binding, remembered for good (also across a
	// restart of the chain: a provider "belongs to" its owner whatever the store says later)
	ownerOf map[string]string
}

func newC05(w *World, m *Model) *c05 {
	return &c05{oracleBase: newBase("C05", w), m: m, wrong: map[string]bool{}, ownerOf: map[string]string{}}
}

func (o *c05) isModuleAcc(a string) bool {
	return a == o.w.DepositAcc || a == o.w.RequestAcc || a == o.w.FeeCollector
}

func (o *c05) Step(r *StepRec) []Violation {
	a, pre, post := r.Action, r.Pre, r.Post
	// which rightful party does this action need?
	rightful, target := "", false // rightful signer (hex) if the target exists
	moduleCtx := false
	switch a.Kind {
	case KUpdateBind, KDisable, KEnable, KRefundDep:
		if b, ok := pre.Binds[bkey(a.Service, a.Provider)]; ok {
			rightful, target = hx(b.Owner), true
		}
	case KWithdraw:
		if a.Provider != "" {
			bindOwner := ""
			for _, bk := range sortedKeys(pre.Binds) {
				if b := pre.Binds[bk]; hx(b.Provider) == a.Provider {
					bindOwner = hx(b.Owner)
					break
				}
			}
			if bindOwner != "" {
				rightful, target = bindOwner, true
			} else if ow, ok := pre.Owner[a.Provider]; ok {
				rightful, target = ow, true
			} else if r.OK {
				o.fail("c05:withdraw", "withdrawal for provider %s that has no owner succeeded", short(a.Provider))
			}
		}
	case KPause, KStart, KKill, KUpdateCtx:
		if rc, ok := pre.Ctxs[a.CtxID]; ok {
			rightful, target = hx(rc.Consumer), true
			moduleCtx = rc.ModuleName != ""
		}
	case KModPause, KModStart, KModKill, KModUpdate:
		// the same operations through the keeper API, as the owning module performs them on behalf of
		// an account: they succeed only in the name of the context's consumer
		if rc, ok := pre.Ctxs[a.CtxID]; ok {
			rightful, target = hx(rc.Consumer), true
		}
	case KRespond:
		if rq, ok := pre.Reqs[a.ReqID]; ok {
			rightful, target = hx(rq.Provider), true
		}
	case KBind:
		if ow, ok := pre.Owner[a.Provider]; ok {
			rightful, target = ow, true
		}
		// ground truth independent of the provider->owner index: the owner recorded on the
		// provider's existing bindings
		for _, bk := range sortedKeys(pre.Binds) {
			if b := pre.Binds[bk]; hx(b.Provider) == a.Provider {
				rightful, target = hx(b.Owner), true
				break
			}
		}
		if ow, ok := o.ownerOf[a.Provider]; ok {
			if !target {
				o.hit("bind_of_a_provider_whose_bindings_are_gone")
			}
			rightful, target = ow, true // the owner it has had since its first binding
		}
		if o.w.cfg.ModSvc != nil && a.Service == ModSvcName {
			o.hit("bind_reserved_service")
			if r.OK {
				o.fail("c05:bind_reserved", "binding the module-reserved service succeeded")
			}
		}
	}
	for _, bk := range sortedKeys(post.Binds) {
		b := post.Binds[bk]
		if _, known := o.ownerOf[hx(b.Provider)]; !known {
			o.ownerOf[hx(b.Provider)] = hx(b.Owner)
		}
	}
	if target && !r.InTx {
		if a.Signer != rightful {
			o.wrong[a.Kind] = true
			o.hit("wrong_signer:" + a.Kind)
		}
		if moduleCtx {
			o.hit("msg_on_module_context:" + a.Kind)
		}
	}
	if r.OK && target {
		if a.Signer != rightful {
			o.fail("c05:auth:"+a.Kind, "%s signed by %s succeeded; rightful party is %s", a.Kind, short(a.Signer), short(rightful))
		}
		if moduleCtx {
			o.fail("c05:modulectx:"+a.Kind, "%s message succeeded on a context created by module", a.Kind)
		}
	}
	// debits (in every coin that exists)
	denoms := []string{"stake"}
	if o.w.cfg.FundingPoint != nil {
		denoms = append(denoms, "point")
	}
	for _, denom := range denoms {
		diff := balanceDiffIn(pre, post, denom)
		switch {
		case a.Kind == KEndBlock:
			allowed := map[string]bool{}
			fees := map[string]int64{}
			for _, id := range NewReqs(r) {
				rq := post.Reqs[id]
				fees[hx(rq.RequestContextId)] += amtIn(rq.ServiceFee, denom)
			}
			for cid, f := range fees {
				if rc, ok := pre.Ctxs[cid]; ok && rc.State == 0 && f > 0 {
					allowed[hx(rc.Consumer)] = true
				}
			}
			for _, acc := range sortedAddrs(diff) {
				if diff[acc] < 0 && !o.isModuleAcc(acc) && !allowed[acc] {
					o.fail("c05:debit:end_block", "end-block lowered the %s balance of %s by %d; it is not the consumer of a running context that issued a paid batch", denom, short(acc), -diff[acc])
				}
			}
			if len(allowed) > 0 {
				o.hit("end_block_debit")
			}
		default:
			for _, acc := range sortedAddrs(diff) {
				if diff[acc] < 0 && !o.isModuleAcc(acc) && acc != a.Signer {
					o.fail("c05:debit:"+a.Kind, "%s signed by %s lowered the %s balance of %s by %d", a.Kind, short(a.Signer), denom, short(acc), -diff[acc])
				}
			}
		}
	}
	return o.take()
}

func (o *c05) NonTrivial() bool { return len(o.wrong) >= 3 }
