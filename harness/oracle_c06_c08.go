package harness

import (
	"fmt"
	"sort"

	"github.com/irismod/service/types"
)

const (
	stRunning   = types.RUNNING
	stPaused    = types.PAUSED
	stCompleted = types.COMPLETED
)

func volOf(s *Snapshot, consumerHex, service, providerHex string) uint64 {
	c, p := addr(consumerHex).String(), addr(providerHex).String()
	for _, v := range s.Vols {
		if v.Consumer == c && v.Service == service && v.Provider == p {
			return v.Volume
		}
	}
	return 0
}

// batchCandidates lists the contexts whose new-batch entry is processed when block H ends:
// those queued for H before the block ended, and those re-queued for H by the expiry phase
// (frequency == timeout).
func batchCandidates(pre *Snapshot, h int64) []string {
	set := map[string]bool{}
	for _, q := range pre.NewQ {
		if q.Height == h {
			set[q.Ctx] = true
		}
	}
	for _, q := range pre.ExpQ {
		if q.Height != h {
			continue
		}
		rc, ok := pre.Ctxs[q.Ctx]
		if !ok || rc.State != stRunning || !rc.Repeated {
			continue
		}
		if rc.RepeatedTotal >= 0 && int64(rc.BatchCounter) >= rc.RepeatedTotal {
			continue
		}
		if h-rc.Timeout+int64(rc.RepeatedFrequency) == h {
			set[q.Ctx] = true
		}
	}
	return sortedKeys(set)
}

// totalReached: a repeated context with a positive total that has had all its batches
func totalReached(rc types.RequestContext) bool {
	return rc.Repeated && rc.RepeatedTotal > 0 && int64(rc.BatchCounter) >= rc.RepeatedTotal
}

type eligibility struct {
	E        []string // eligible providers (hex), in context order
	Prices   []int64
	Total    int64
	ExclNoBinding, ExclUnavailable, ExclQoS, ExclPrice, ExclNoRate int
	Unparsed bool
}

// eligible computes the providers that qualify for a batch of rc at block time tNs, from
// bindings as they are after the expiry phase (bindSnap), volumes as before the block.
//
// baseDenom: the base denomination in force. Every price and every coin of the harness is in
// "stake"; when a governance change has moved the base denomination elsewhere no exchange-rate
// service is registered, so no price can be expressed in the base denomination and nobody
// qualifies (the module announces "no_exchange_rate" and the batch is skipped).
func eligible(rc types.RequestContext, bindSnap, volSnap *Snapshot, tNs int64, cfg Config) eligibility {
	var el eligibility
	cap := mustI64(rc.ServiceFeeCap.AmountOf(cfg.baseDenom()))
	for _, p := range rc.Providers {
		ph := hx(p)
		b, ok := bindSnap.Binds[bkey(rc.ServiceName, ph)]
		if !ok {
			el.ExclNoBinding++
			continue
		}
		if !b.Available {
			el.ExclUnavailable++
			continue
		}
		if b.QoS > uint64(rc.Timeout) {
			el.ExclQoS++
			continue
		}
		rp, err := ParseRefPricing(b.Pricing)
		if err != nil {
			el.Unparsed = true
			continue
		}
		if !cfg.Priceable(rp) {
			el.ExclNoRate++
			continue
		}
		price := cfg.FeeOf(rp, tNs, volOf(volSnap, hx(rc.Consumer), rc.ServiceName, ph))
		if price > cap {
			el.ExclPrice++
			continue
		}
		el.E = append(el.E, ph)
		el.Prices = append(el.Prices, price)
		el.Total += price
	}
	return el
}

func newReqsOf(r *StepRec, ctx string) []string {
	var out []string
	for _, id := range NewReqs(r) {
		if hx(r.Post.Reqs[id].RequestContextId) == ctx {
			out = append(out, id)
		}
	}
	sort.Strings(out)
	return out
}

// ---------------------------------------------------------------------------------------------
// C06 — requests go only to eligible providers, within the consumer's fee cap.

type c06 struct {
	oracleBase
	m *Model
}

func newC06(w *World, m *Model) *c06 { return &c06{oracleBase: newBase("C06", w), m: m} }

func (o *c06) Step(r *StepRec) []Violation {
	if !r.OK {
		return nil
	}
	pre, post := r.Pre, r.Post
	// no request ever carries a fee above the cap in force when it was issued
	for _, id := range NewReqs(r) {
		rq := post.Reqs[id]
		cid := hx(rq.RequestContextId)
		rc, ok := pre.Ctxs[cid]
		if !ok {
			rc = post.Ctxs[cid]
		}
		for _, fc := range rq.ServiceFee {
			if fc.Amount.GT(rc.ServiceFeeCap.AmountOf(fc.Denom)) {
				o.fail("c06:cap", "request %s carries fee %s above the cap %s", short(id), rq.ServiceFee, rc.ServiceFeeCap)
			}
		}
	}
	if r.Action.Kind != KEndBlock {
		return o.take()
	}
	// the context keeps naming the providers (and cap, timeout, threshold) its consumer gave it
	for _, cid := range sortedKeys(pre.Ctxs) {
		p0 := pre.Ctxs[cid]
		if p1, ok := post.Ctxs[cid]; ok {
			if !sameAddrs(provHexes(p0), provHexes(p1)) || p0.ServiceFeeCap.String() != p1.ServiceFeeCap.String() || p0.Timeout != p1.Timeout || p0.ResponseThreshold != p1.ResponseThreshold {
				o.fail("c06:config", "end-block changed the providers/cap/timeout/threshold of context %s: providers %v -> %v", short(cid), shortAll(provHexes(p0)), shortAll(provHexes(p1)))
			}
		}
	}
	cands := batchCandidates(pre, r.Height)
	candSet := map[string]bool{}
	outcomes := map[string]bool{}
	for _, cid := range cands {
		rc, ok := pre.Ctxs[cid]
		if !ok || rc.State != stRunning {
			continue
		}
		candSet[cid] = true
		if totalReached(rc) {
			continue // no further batch is due (C10); nothing to say about eligibility
		}
		el := eligible(rc, post, pre, r.TimeNs, o.w.cfg)
		if el.Unparsed {
			o.hit("unparsed_pricing")
			continue
		}
		thr := int(rc.ResponseThreshold)
		qualifies := len(el.E) > 0 && len(el.E) >= thr
		if el.ExclNoBinding > 0 {
			o.hit("excluded_no_binding")
		}
		if el.ExclUnavailable > 0 {
			o.hit("excluded_unavailable")
			for _, p := range rc.Providers {
				bk := bkey(rc.ServiceName, hx(p))
				if pb, ok := pre.Binds[bk]; ok && pb.Available && !post.Binds[bk].Available {
					o.hit("excluded_after_slash_same_block")
				}
			}
		}
		if el.ExclQoS > 0 {
			o.hit("excluded_qos")
		}
		if el.ExclPrice > 0 {
			o.hit("excluded_price")
		}
		if el.ExclNoRate > 0 {
			o.hit("excluded_no_exchange_rate")
		}
		issued := newReqsOf(r, cid)
		prc, exists := post.Ctxs[cid]
		switch {
		case len(issued) > 0:
			outcomes["issued"] = true
			o.hit("issued")
			var got []string
			for _, id := range issued {
				got = append(got, hx(post.Reqs[id].Provider))
			}
			if !qualifies || fmt.Sprint(got) != fmt.Sprint(el.E) {
				o.fail("c06:issued", "context %s: requests issued to %v, eligible set is %v (threshold %d)", short(cid), shortAll(got), shortAll(el.E), thr)
			}
			if len(el.E) < len(rc.Providers) {
				o.hit("issued_to_strict_subset")
			}
			if !exists || prc.State != stRunning {
				o.fail("c06:issued_not_running", "context %s: requests issued although the context ended the block %s (a consumer who cannot pay gets no requests)", short(cid), stateName(prc.State))
			}
		case exists && prc.BatchCounter == rc.BatchCounter+1:
			outcomes["skipped"] = true
			o.hit("skipped")
			if qualifies {
				o.fail("c06:skipped", "context %s: batch skipped although %d provider(s) %v qualify (threshold %d)", short(cid), len(el.E), shortAll(el.E), thr)
			}
			if len(el.E) > 0 {
				o.hit("skipped_below_threshold")
			}
		case exists && prc.State == stPaused && prc.BatchCounter == rc.BatchCounter:
			outcomes["paused"] = true
			o.hit("paused_insufficient_funds")
			bal := o.w.cfg.balIn(post, hx(rc.Consumer))
			if !qualifies || rc.SuperMode || el.Total <= bal {
				o.fail("c06:paused", "context %s paused for funds: qualifies=%v super=%v total=%d consumer balance=%d", short(cid), qualifies, rc.SuperMode, el.Total, bal)
			}
		}
	}
	// issued requests are paid for: each consumer's debit equals the fees of the requests issued for it
	due := map[string]int64{}
	for _, id := range NewReqs(r) {
		rq := post.Reqs[id]
		due[hx(pre.Ctxs[hx(rq.RequestContextId)].Consumer)] += stakeOf(rq.ServiceFee)
	}
	refunds := map[string]int64{}
	for _, ri := range o.m.Expiring(r.Height) {
		if !ri.Super {
			refunds[ri.Consumer] += ri.Fee
		}
	}
	for _, c := range sortedAddrs(due) {
		if got := pre.Bal[c] + refunds[c] - post.Bal[c]; got != due[c] {
			o.fail("c06:charge", "consumer %s paid %d for requests carrying %d in total", short(c), got, due[c])
		}
	}
	// no request for a context that was not due and running
	for _, id := range NewReqs(r) {
		cid := hx(post.Reqs[id].RequestContextId)
		if !candSet[cid] {
			o.fail("c06:notdue", "request %s issued for context %s which was not due or not running", short(id), short(cid))
		}
	}
	if len(outcomes) >= 2 {
		o.hit("mixed_outcomes_one_block")
	}
	return o.take()
}

func shortAll(xs []string) []string {
	out := make([]string, len(xs))
	for i, x := range xs {
		out[i] = short(x)
	}
	return out
}

func (o *c06) NonTrivial() bool {
	c := o.cls
	return c["mixed_outcomes_one_block"] > 0 || (c["excluded_unavailable"] > 0 && c["excluded_qos"] > 0 && c["excluded_price"] > 0) ||
		c["excluded_after_slash_same_block"] > 0 || (c["issued_to_strict_subset"] > 0 && c["skipped"] > 0)
}

// ---------------------------------------------------------------------------------------------
// C07 — the fee charged follows the provider's published pricing.

type c07 struct {
	oracleBase
	m   *Model
	vol map[string]uint64 // consumerBech|service|providerBech -> accepted responses
}

func newC07(w *World, m *Model) *c07 { return &c07{oracleBase: newBase("C07", w), m: m, vol: map[string]uint64{}} }

func (o *c07) Step(r *StepRec) []Violation {
	if !r.OK {
		return nil
	}
	pre, post := r.Pre, r.Post
	for _, id := range NewReqs(r) {
		rq := post.Reqs[id]
		cid := hx(rq.RequestContextId)
		rc, ok := pre.Ctxs[cid]
		if !ok {
			rc = post.Ctxs[cid]
		}
		fee := mustI64(rq.ServiceFee.AmountOf(o.w.cfg.baseDenom()))
		if !rc.SuperMode && (len(rq.ServiceFee) != 1 || rq.ServiceFee[0].Denom != o.w.cfg.baseDenom()) {
			o.fail("c07:denom", "request %s carries fee %q, not an amount of the base denomination %s", short(id), rq.ServiceFee, o.w.cfg.baseDenom())
		}
		if rc.SuperMode {
			o.hit("super_mode_request")
			if len(rq.ServiceFee) != 0 {
				o.fail("c07:super", "super-mode request %s carries fee %s", short(id), rq.ServiceFee)
			}
			if d := post.Bal[hx(rc.Consumer)] - pre.Bal[hx(rc.Consumer)]; d < 0 {
				// the consumer may pay for other, non-super contexts in the same block: checked exactly below
				_ = d
			}
			continue
		}
		b, ok := pre.Binds[bkey(rc.ServiceName, hx(rq.Provider))]
		if !ok {
			o.fail("c07:nobinding", "request %s issued to a provider without binding", short(id))
			continue
		}
		rp, err := ParseRefPricing(b.Pricing)
		if err != nil {
			o.hit("unparsed_pricing")
			continue
		}
		vol := volOf(pre, hx(rc.Consumer), rc.ServiceName, hx(rq.Provider))
		if !o.w.cfg.Priceable(rp) {
			o.fail("c07:fee", "request %s issued although the price %q cannot be expressed in the base denomination", short(id), b.Pricing)
			continue
		}
		if rp.Denom != o.w.cfg.baseDenom() {
			o.hit("price_in_foreign_token")
		}
		want := o.w.cfg.FeeOf(rp, r.TimeNs, vol)
		if !o.w.cfg.FeeOK(rp, r.TimeNs, vol, fee) {
			o.fail("c07:fee", "request %s: fee %d, published price is %d (base %d, time discount %s, volume %d discount %s)",
				short(id), fee, want, rp.Base, rp.DiscountAt(r.TimeNs).RatString(), vol, rp.DiscountFor(vol).RatString())
		}
		if bb := o.w.cfg.BaseInBase(rp); fee > max64(bb, 1) {
			o.fail("c07:bound", "request %s: fee %d exceeds max(base %d, 1)", short(id), fee, bb)
		}
		inWin := rp.DiscountAt(r.TimeNs).Cmp(ratOne) != 0
		inVol := rp.DiscountFor(vol).Cmp(ratOne) != 0
		if inWin {
			o.hit("time_discount_applied")
		}
		if inVol {
			o.hit("volume_discount_applied")
		}
		if inWin && inVol {
			o.hit("both_discounts")
		}
		if want == 1 && (rp.Base != 1 || inWin || inVol) {
			o.hit("clamped_to_one")
		}
		for _, w := range rp.ByTime {
			if r.TimeNs == w.StartNs || r.TimeNs == w.EndNs || r.TimeNs == w.EndNs-1 || r.TimeNs == w.StartNs-1 {
				o.hit("window_boundary_instant")
			}
		}
		for _, v := range rp.ByVol {
			if vol == v.Volume || vol+1 == v.Volume {
				o.hit("volume_threshold_edge")
			}
		}
	}
	// a synchronous module-service call: the consumer's balance moves exactly as the fee recorded on
	// the request says (nothing in super mode)
	if r.Action.Kind == KCall && len(NewReqs(r)) > 0 {
		e := ExpectedEffects(o.w, o.m, r)
		c := r.Action.Signer
		if got := post.Bal[c] - pre.Bal[c]; got != e.Delta[c] {
			o.fail("c07:charge_call", "module-service call: consumer %s balance moved by %d, the fee recorded on the request implies %d", short(c), got, e.Delta[c])
		}
	}
	// super-mode consumers pay nothing: the consumer's debit equals the fees of its new requests
	if r.Action.Kind == KEndBlock {
		due := map[string]int64{}
		for _, id := range NewReqs(r) {
			rq := post.Reqs[id]
			rc := pre.Ctxs[hx(rq.RequestContextId)]
			due[hx(rc.Consumer)] += stakeOf(rq.ServiceFee)
		}
		refunds := map[string]int64{}
		for _, ri := range o.m.Expiring(r.Height) {
			if !ri.Super {
				refunds[ri.Consumer] += ri.Fee
			}
		}
		for _, c := range sortedAddrs(due) {
			if got := pre.Bal[c] + refunds[c] - post.Bal[c]; got != due[c] {
				o.fail("c07:charge", "consumer %s was charged %d for requests carrying %d", short(c), got, due[c])
			}
		}
	}
	if r.Action.Kind == KRestart {
		o.vol = map[string]uint64{} // volumes are not part of the exported genesis
	}
	// volume: +1 per accepted response, never otherwise
	bump := func(consumerHex, service, provHex string) {
		o.vol[addr(consumerHex).String()+"|"+service+"|"+addr(provHex).String()]++
	}
	switch r.Action.Kind {
	case KRespond:
		if ri, ok := o.m.Reqs[r.Action.ReqID]; ok {
			bump(ri.Consumer, ri.Service, ri.Provider)
			o.hit("volume_moved")
		}
	case KCall:
		for _, id := range NewReqs(r) {
			if _, answered := post.Resps[id]; answered {
				rq := post.Reqs[id]
				rc := post.Ctxs[hx(rq.RequestContextId)]
				bump(hx(rc.Consumer), rc.ServiceName, hx(rq.Provider))
			}
		}
	}
	got := map[string]uint64{}
	for _, v := range post.Vols {
		got[v.Consumer+"|"+v.Service+"|"+v.Provider] = v.Volume
	}
	for k, v := range o.vol {
		if got[k] != v {
			o.fail("c07:volume", "recorded volume for %s is %d, %d responses were accepted", k, got[k], v)
			break
		}
	}
	for k, v := range got {
		if o.vol[k] != v {
			o.fail("c07:volume", "recorded volume for %s is %d, %d responses were accepted", k, v, o.vol[k])
			break
		}
	}
	return o.take()
}

func (o *c07) NonTrivial() bool {
	c := o.cls
	return c["both_discounts"] > 0 || c["clamped_to_one"] > 0 || c["window_boundary_instant"] > 0
}

// ---------------------------------------------------------------------------------------------
// C08 — a request can be answered once, by its provider, until its expiry block ends.

type c08 struct {
	oracleBase
	m *Model
}

func newC08(w *World, m *Model) *c08 { return &c08{oracleBase: newBase("C08", w), m: m} }

func (o *c08) Step(r *StepRec) []Violation {
	a, pre, post := r.Action, r.Pre, r.Post
	if r.OK {
		// expiration height recorded at issue == issue height + timeout in force
		for _, id := range NewReqs(r) {
			rq := post.Reqs[id]
			cid := hx(rq.RequestContextId)
			rc, ok := pre.Ctxs[cid]
			if !ok {
				rc = post.Ctxs[cid]
			}
			if rq.RequestHeight != r.Height || rq.ExpirationHeight != r.Height+rc.Timeout {
				o.fail("c08:expiry_height", "request %s issued at height %d under timeout %d records request height %d, expiration %d",
					short(id), r.Height, rc.Timeout, rq.RequestHeight, rq.ExpirationHeight)
			}
		}
	}
	if a.Kind == KRespond && r.VBErr == "" {
		ri, known := o.m.Reqs[a.ReqID]
		expect := known && ri.Status == "pending" && a.Signer == ri.Provider
		switch {
		case r.OK && !expect:
			why := "unknown request"
			if known {
				why = fmt.Sprintf("status=%s provider=%s signer=%s expiry=%d height=%d", ri.Status, short(ri.Provider), short(a.Signer), ri.ExpH, r.Height)
			}
			o.fail("c08:accepted", "response accepted but must be rejected: %s", why)
		case !r.OK && expect && !r.InTx:
			o.fail("c08:rejected", "response by the designated provider to pending request %s rejected at height %d (expiry %d): %s%s", short(a.ReqID), r.Height, ri.ExpH, r.Err, r.Panic)
		}
		if r.OK {
			o.hit("accepted")
			if ri != nil && r.Height == ri.ExpH {
				o.hit("accepted_in_expiry_block")
			}
			if ri != nil && r.Height == ri.IssueH+1 {
				o.hit("accepted_first_block")
			}
			if ri != nil {
				if rc, ok := pre.Ctxs[ri.Ctx]; ok && rc.State != stRunning {
					o.hit("accepted_while_paused_or_killed")
				}
			}
		} else if !r.InTx {
			switch {
			case !known:
				o.hit("rejected_unknown")
			case ri.Status == "expired":
				o.hit("rejected_after_expiry")
			case ri.Status == "answered":
				o.hit("rejected_duplicate")
			case a.Signer != ri.Provider:
				o.hit("rejected_stranger")
			}
		}
	}
	if a.Kind == KEndBlock && r.OK {
		gone := map[string]bool{}
		for _, ri := range o.m.Expiring(r.Height) {
			gone[ri.ID] = true
		}
		for id := range post.ActiveID {
			if gone[id] {
				o.fail("c08:still_pending", "request %s still pending after its expiry block %d ended", short(id), r.Height)
			}
		}
		for _, e := range post.ActiveB {
			if gone[e.ReqID] {
				o.fail("c08:still_pending", "request %s still listed for its binding after its expiry block %d ended", short(e.ReqID), r.Height)
			}
		}
	}
	// a pending request keeps its markers until answered or expired
	if r.OK {
		for _, ri := range o.m.Pending() {
			if a.Kind == KEndBlock && ri.ExpH == r.Height {
				continue
			}
			if a.Kind == KRespond && a.ReqID == ri.ID {
				continue
			}
			if a.Kind == KRestart {
				continue
			}
			if _, ok := post.ActiveID[ri.ID]; !ok {
				o.fail("c08:lost", "request %s (expiry %d) stopped being pending at height %d without response or expiry", short(ri.ID), ri.ExpH, r.Height)
				break
			}
		}
	}
	return o.take()
}

func (o *c08) NonTrivial() bool {
	c := o.cls
	n := 0
	for _, k := range []string{"accepted_in_expiry_block", "rejected_after_expiry", "rejected_duplicate", "rejected_stranger"} {
		if c[k] > 0 {
			n++
		}
	}
	return n >= 2 && c["accepted"] > 0
}
