package harness

import (
	"bytes"
	"encoding/binary"
	"fmt"
	"sort"
	"strings"

	"github.com/irismod/service/types"
)

func be64(v uint64) []byte {
	b := make([]byte, 8)
	binary.BigEndian.PutUint64(b, v)
	return b
}

func stateName(s types.RequestContextState) string {
	switch s {
	case stRunning:
		return "running"
	case stPaused:
		return "paused"
	case stCompleted:
		return "completed"
	}
	return fmt.Sprint(int32(s))
}

func targetsCtx(a Action) bool {
	switch a.Kind {
	case KPause, KStart, KKill, KUpdateCtx, KModPause, KModStart, KModKill, KModUpdate:
		return true
	}
	return false
}

func isCandidate(pre *Snapshot, h int64, cid string) bool {
	for _, c := range batchCandidates(pre, h) {
		if c == cid {
			return true
		}
	}
	return false
}

// ---------------------------------------------------------------------------------------------
// C09 — request contexts follow their lifecycle state machine.

type c09 struct {
	oracleBase
	m     *Model
	pairs map[string]bool
	illeg bool
}

func newC09(w *World, m *Model) *c09 { return &c09{oracleBase: newBase("C09", w), m: m, pairs: map[string]bool{}} }

func sameAddrs(a, b []string) bool { return strings.Join(a, ",") == strings.Join(b, ",") }

func provHexes(rc types.RequestContext) []string {
	out := make([]string, len(rc.Providers))
	for i, p := range rc.Providers {
		out[i] = hx(p)
	}
	return out
}

func (o *c09) Step(r *StepRec) []Violation {
	a, pre, post := r.Action, r.Pre, r.Post
	if targetsCtx(a) && !r.InTx && r.VBErr == "" {
		if rc, ok := pre.Ctxs[a.CtxID]; ok {
			okS := "rejected"
			if r.OK {
				okS = "ok"
			}
			rep := "oneshot"
			if rc.Repeated {
				rep = "repeated"
			}
			key := stateName(rc.State) + ":" + rep + ":" + a.Kind + ":" + okS
			o.pairs[key] = true
			o.hit("pair:" + key)
			if !r.OK {
				o.illeg = true
			}
		}
	}
	if !r.OK {
		return nil
	}
	created := map[string]bool{}
	for _, id := range r.CtxIDs {
		created[id] = true
	}
	// contexts their module killed from inside a "cannot pay" notification of this step (its own and,
	// where the module stops all its feeds, the siblings): completed from that moment on
	killedAt := map[string]uint64{}
	for _, cb := range r.CBs {
		for _, kc := range cb.Killed {
			killedAt[kc.Ctx] = kc.Counter
			if kc.Ctx != cb.Ctx {
				o.hit("sibling_killed_in_state_callback")
			}
			if p1, ok := post.Ctxs[kc.Ctx]; ok {
				if p1.State != stCompleted {
					o.fail("c09:kill_lost", "context %s was killed by its module inside a state callback, but is %s after %s", short(kc.Ctx), stateName(p1.State), a.Kind)
				}
				if p1.BatchCounter != kc.Counter {
					o.fail("c09:batch_after_kill", "context %s was killed by its module at batch %d inside a state callback and is at batch %d after %s: a completed context was issued (or skipped) a batch",
						short(kc.Ctx), kc.Counter, p1.BatchCounter, a.Kind)
				}
			}
		}
	}
	// what the owning module did to its context from inside a response callback of this step
	reacted := map[string]string{}
	for _, cb := range r.CBs {
		if cb.React != "" && cb.ReactOK {
			reacted[cb.Ctx] = cb.React
			o.hit("module_" + cb.React + "_in_response_callback")
			// the keeper accepted it: it must hold when the step is over (a killed context may already be gone)
			if p1, ok := post.Ctxs[cb.Ctx]; ok {
				want := stCompleted
				if cb.React == "pause" {
					want = stPaused
				}
				if cb.React == "start" {
					want = stRunning
				}
				if _, killedLater := killedAt[cb.Ctx]; killedLater {
					want = stCompleted // and later in the same block the module stopped all its feeds
				}
				if cb.React == "start" && p1.State == stPaused {
					// resumed at the expiry, due at once, and its consumer could not pay: the module was told so
					for _, cb2 := range r.CBs {
						if cb2.Kind == "state" && cb2.Ctx == cb.Ctx {
							want = stPaused
						}
					}
				}
				if p1.State != want {
					o.fail("c09:react_lost:"+cb.React, "the module's %s of context %s inside its response callback succeeded, but the context is %s after %s", cb.React, short(cb.Ctx), stateName(p1.State), a.Kind)
				}
			}
		}
	}
	ids := map[string]bool{}
	for id := range pre.Ctxs {
		ids[id] = true
	}
	for id := range post.Ctxs {
		ids[id] = true
	}
	for _, id := range sortedKeys(ids) {
		p0, inPre := pre.Ctxs[id]
		p1, inPost := post.Ctxs[id]
		switch {
		case !inPre && inPost:
			if !(a.Kind == KCall || a.Kind == KModCreate) || !created[id] {
				o.fail("c09:create:"+a.Kind, "context %s appeared in %s", short(id), a.Kind)
			}
			continue
		case inPre && !inPost:
			if a.Kind != KEndBlock {
				o.fail("c09:delete:"+a.Kind, "context %s disappeared in %s", short(id), a.Kind)
			}
			continue
		}
		if p0.ServiceName != p1.ServiceName || !p0.Consumer.Equals(p1.Consumer) || p0.Input != p1.Input || p0.SuperMode != p1.SuperMode ||
			p0.Repeated != p1.Repeated || p0.ModuleName != p1.ModuleName {
			o.fail("c09:immutable:"+a.Kind, "immutable field of context %s changed in %s", short(id), a.Kind)
		}
		targeted := targetsCtx(a) && a.CtxID == id
		// the configuration changes only through a successful update of this very context
		if !(targeted && (a.Kind == KUpdateCtx || a.Kind == KModUpdate)) {
			if !sameAddrs(provHexes(p0), provHexes(p1)) || p0.ServiceFeeCap.String() != p1.ServiceFeeCap.String() || p0.Timeout != p1.Timeout ||
				p0.RepeatedFrequency != p1.RepeatedFrequency || p0.RepeatedTotal != p1.RepeatedTotal || p0.ResponseThreshold != p1.ResponseThreshold {
				o.fail("c09:config:"+a.Kind, "configuration (providers/cap/timeout/frequency/total/threshold) of context %s changed in %s", short(id), a.Kind)
			}
		} else if r.OK {
			// a successful update changes exactly what it names; an empty list / zero field means "keep"
			// (client/cli/flags.go: "not updated if empty", "not updated if set to 0")
			if msg := updateMismatch(a, p0, p1); msg != "" {
				o.fail("c09:update_fields:"+a.Kind, "update of context %s: %s", short(id), msg)
			}
			o.hit("update_applied")
		}
		if p0.State != p1.State {
			legal := false
			switch {
			case reacted[id] == "kill" && p0.State == stRunning && p1.State == stCompleted,
				reacted[id] == "pause" && p0.State == stRunning && p1.State == stPaused,
				reacted[id] == "start" && p0.State == stPaused && p1.State == stRunning:
				legal = p0.Repeated && p0.ModuleName != "" // its module killed / paused it from inside the response callback
			case a.Kind == KRestart && p1.State == stPaused:
				legal = true // a zero-height restart leaves every context paused
			case p0.State == stRunning && p1.State == stPaused:
				legal = (targeted && (a.Kind == KPause || a.Kind == KModPause) && p0.Repeated) ||
					(a.Kind == KEndBlock && !p0.SuperMode && isCandidate(pre, r.Height, id))
				if a.Kind == KEndBlock && legal && reacted[id] == "" && o.w.cfg.FundingPoint == nil {
					// "a consumer's inability to pay a batch moves running to paused" - nothing else in an end-block does:
					// the providers that qualify must cost more than the consumer holds when the block is over (during
					// the issuing phase a balance only falls, so it held at least that much when it was asked to pay)
					if el := eligible(p0, post, pre, r.TimeNs, o.w.cfg); !el.Unparsed {
						bal := o.w.cfg.balIn(post, hx(p0.Consumer))
						if qualifies := len(el.E) > 0 && len(el.E) >= int(p0.ResponseThreshold); !qualifies || el.Total <= bal {
							o.fail("c09:paused_though_solvent", "context %s was paused by the end-block although its consumer can pay: qualifying providers cost %d, the consumer still holds %d (qualifies=%v)",
								short(id), el.Total, bal, qualifies)
						}
						if el.Total == bal+1 || el.Total == bal {
							o.hit("consumer_balance_at_the_price_pm1")
						}
					}
				}
				if a.Kind == KEndBlock {
					o.hit("paused_by_end_block")
					if o.w.cfg.Reactive && p0.ModuleName != "" && p0.Repeated {
						// the module killed the context when it was notified: completed is final
						legal = false
					}
				}
			case a.Kind == KEndBlock && o.w.cfg.Reactive && p0.State == stRunning && p1.State == stCompleted:
				// killed by its module from inside the "cannot pay" notification: its own, or (a module that
				// stops all its feeds) that of a sibling
				_, wasKilled := killedAt[id]
				legal = p0.ModuleName != "" && p0.Repeated && (wasKilled || (!p0.SuperMode && isCandidate(pre, r.Height, id)))
				o.hit("killed_by_module_in_state_callback")
			case p0.State == stPaused && p1.State == stRunning:
				legal = targeted && (a.Kind == KStart || a.Kind == KModStart)
			case p0.State != stCompleted && p1.State == stCompleted:
				legal = targeted && (a.Kind == KKill || a.Kind == KModKill) && p0.Repeated
			}
			if !legal {
				o.fail("c09:transition:"+a.Kind, "context %s went %s -> %s in %s (repeated=%v targeted=%v)", short(id), stateName(p0.State), stateName(p1.State), a.Kind, p0.Repeated, targeted)
			}
		}
		if targeted {
			switch a.Kind {
			case KPause, KModPause:
				if !(p0.State == stRunning && p0.Repeated && p1.State == stPaused) {
					o.fail("c09:pause", "pause succeeded on a %s context (repeated=%v), now %s", stateName(p0.State), p0.Repeated, stateName(p1.State))
				}
			case KStart, KModStart:
				if !(p0.State == stPaused && p1.State == stRunning) {
					o.fail("c09:start", "start succeeded on a %s context, now %s", stateName(p0.State), stateName(p1.State))
				}
			case KKill, KModKill:
				if !(p0.Repeated && p1.State == stCompleted) {
					o.fail("c09:kill", "kill succeeded on a context with repeated=%v, now %s", p0.Repeated, stateName(p1.State))
				}
			case KUpdateCtx, KModUpdate:
				if p0.State == stCompleted {
					o.fail("c09:update_completed", "update succeeded on a completed context")
				}
			}
		}
		if p0.State == stCompleted && a.Kind != KRestart {
			if p1.BatchCounter != p0.BatchCounter || !sameAddrs(provHexes(p0), provHexes(p1)) || p0.ServiceFeeCap.String() != p1.ServiceFeeCap.String() ||
				p0.Timeout != p1.Timeout || p0.RepeatedFrequency != p1.RepeatedFrequency || p0.RepeatedTotal != p1.RepeatedTotal ||
				p0.ResponseThreshold != p1.ResponseThreshold {
				o.fail("c09:completed_final:"+a.Kind, "completed context %s was modified in %s", short(id), a.Kind)
			}
		}
		if p1.BatchCounter < p0.BatchCounter {
			o.fail("c09:counter:"+a.Kind, "batch counter of %s decreased %d -> %d", short(id), p0.BatchCounter, p1.BatchCounter)
		}
		if p1.BatchCounter > p0.BatchCounter {
			_, killedLater := killedAt[id] // issued its batch, then killed by its module later in the same block (checked above)
			resumed := reacted[id] == "start" && p0.State == stPaused // started by its module from inside the response callback of this block's expiry, then due
			if p1.BatchCounter != p0.BatchCounter+1 || a.Kind != KEndBlock || (p0.State != stRunning && !resumed) || (p1.State != stRunning && !(killedLater && p1.State == stCompleted)) {
				o.fail("c09:counter:"+a.Kind, "batch counter of %s went %d -> %d in %s (state %s -> %s)", short(id), p0.BatchCounter, p1.BatchCounter, a.Kind, stateName(p0.State), stateName(p1.State))
			}
			o.hit("batch_started")
		}
	}
	// the counter advances by one per issued *or skipped* batch: a running context whose batch came due in
	// this block and that is still running afterwards has had its batch issued or skipped
	if a.Kind == KEndBlock && r.OK {
		for _, cid := range batchCandidates(pre, r.Height) {
			p0 := pre.Ctxs[cid]
			p1, alive := post.Ctxs[cid]
			// "a consumer's inability to pay a batch moves running to paused": when the providers that
			// qualify cost more than the consumer can possibly hold in this block (its balance before the
			// block plus every refund of the block; during the issuing phase a balance only falls), the
			// context must not go on running. (Judged where one coin exists: section 4.10 of DESIGN.md.)
			if p0.State == stRunning && alive && !p0.SuperMode && !totalReached(p0) && o.w.cfg.FundingPoint == nil {
				if el := eligible(p0, post, pre, r.TimeNs, o.w.cfg); !el.Unparsed && len(el.E) > 0 && len(el.E) >= int(p0.ResponseThreshold) {
					most := o.w.cfg.balIn(pre, hx(p0.Consumer))
					for _, ri := range o.m.Expiring(r.Height) {
						if !ri.Super && ri.Consumer == hx(p0.Consumer) {
							most += ri.Fee
						}
					}
					if el.Total > most {
						o.hit("consumer_cannot_pay_due_batch")
						if p1.State == stRunning {
							o.fail("c09:unpaid_keeps_running", "context %s: the qualifying providers cost %d, its consumer holds at most %d in this block, yet the context is still running (batch counter %d -> %d)",
								short(cid), el.Total, most, p0.BatchCounter, p1.BatchCounter)
						}
					}
				}
			}
			if p0.State != stRunning || !alive || p1.State != stRunning {
				continue
			}
			if p1.BatchCounter == p0.BatchCounter {
				o.fail("c09:due_not_counted", "context %s was running with a batch due at height %d and is still running, but its batch counter stayed %d (neither issued nor skipped)",
					short(cid), r.Height, p0.BatchCounter)
			} else if len(NewReqs(r)) == 0 {
				o.hit("skipped_batch_counted")
			}
		}
	}
	// batches are issued only while running
	if a.Kind == KEndBlock {
		for _, id := range NewReqs(r) {
			cid := hx(post.Reqs[id].RequestContextId)
			if rc, ok := pre.Ctxs[cid]; !ok || (rc.State != stRunning && !(reacted[cid] == "start" && rc.State == stPaused)) {
				o.fail("c09:issue_not_running", "request issued for context %s that was not running", short(cid))
			}
		}
	}
	return o.take()
}

func (o *c09) NonTrivial() bool { return len(o.pairs) >= 4 && o.illeg }

// ---------------------------------------------------------------------------------------------
// C10 — repeated invocations keep their cadence and respect their total.

type ctxTrack struct {
	created    int64
	batches    []int64
	timeoutAt  int64  // timeout in force when the last batch started
	freqAt     uint64 // frequency in force when the last batch started
	stable     bool   // since the last batch: running, timeout and frequency unchanged at every observation
	maxTotal   int64
	sawNeg     bool
	repeated   bool
	disturbed  bool // a pause/start/update happened between two batches
	restarted  bool // lived through a zero-height restart of the chain
}

type c10 struct {
	oracleBase
	m  *Model
	tr map[string]*ctxTrack
}

func newC10(w *World, m *Model) *c10 { return &c10{oracleBase: newBase("C10", w), m: m, tr: map[string]*ctxTrack{}} }

func (o *c10) observe(id string, rc types.RequestContext) {
	t := o.tr[id]
	if rc.RepeatedTotal < 0 {
		t.sawNeg = true
	}
	if rc.RepeatedTotal > t.maxTotal {
		t.maxTotal = rc.RepeatedTotal
	}
	if len(t.batches) > 0 && (rc.State != stRunning || rc.Timeout != t.timeoutAt || rc.RepeatedFrequency != t.freqAt) {
		if t.stable {
			t.disturbed = true
		}
		t.stable = false
	}
}

func (o *c10) startBatch(id string, h int64, at types.RequestContext, sigKind string) {
	t := o.tr[id]
	if n := len(t.batches); n > 0 {
		prev := t.batches[n-1]
		if h < prev+t.timeoutAt {
			o.fail("c10:overlap:"+sigKind, "context %s: batch at height %d starts before the previous one (height %d, timeout %d) expired", short(id), h, prev, t.timeoutAt)
		}
		if t.stable && uint64(h-prev) != t.freqAt {
			o.fail("c10:cadence:"+sigKind, "context %s: batches at %d and %d, frequency %d, running and unchanged in between", short(id), prev, h, t.freqAt)
		}
		if t.stable {
			o.hit("cadence_checked")
		}
		if t.disturbed {
			o.hit("batch_after_pause_or_update")
		}
	}
	t.batches = append(t.batches, h)
	t.timeoutAt, t.freqAt, t.stable, t.disturbed = at.Timeout, at.RepeatedFrequency, true, false
	if !t.repeated && len(t.batches) > 1 && !t.restarted {
		o.fail("c10:oneshot:"+sigKind, "one-shot context %s got batch number %d", short(id), len(t.batches))
	}
	if t.repeated && !t.sawNeg && int64(len(t.batches)) > t.maxTotal {
		o.fail("c10:total:"+sigKind, "context %s got batch number %d, largest total ever in force is %d", short(id), len(t.batches), t.maxTotal)
	}
	if t.repeated && !t.sawNeg && int64(len(t.batches)) == t.maxTotal {
		o.hit("total_reached")
	}
	if len(t.batches) >= 2 {
		o.hit("two_batches")
	}
}

func (o *c10) Step(r *StepRec) []Violation {
	if !r.OK {
		return nil
	}
	a, pre, post := r.Action, r.Pre, r.Post
	for _, id := range sortedKeys(post.Ctxs) {
		rc := post.Ctxs[id]
		if _, ok := o.tr[id]; !ok {
			o.tr[id] = &ctxTrack{created: r.Height, repeated: rc.Repeated}
			o.observe(id, rc)
			if rc.BatchCounter == 1 { // synchronous module-service call
				o.startBatch(id, r.Height, rc, a.Kind)
			}
		}
	}
	if a.Kind == KEndBlock {
		h := r.Height
		for _, id := range sortedKeys(pre.Ctxs) {
			p0 := pre.Ctxs[id]
			t := o.tr[id]
			if t == nil {
				continue
			}
			p1, alive := post.Ctxs[id]
			advanced := alive && p1.BatchCounter == p0.BatchCounter+1
			pausedForFunds := alive && p0.State == stRunning && p1.State == stPaused
			if advanced {
				o.startBatch(id, h, p0, a.Kind)
				continue
			}
			// first batch at the end of the block that contains the call
			if t.created == h && len(t.batches) == 0 && p0.State == stRunning && !pausedForFunds {
				o.fail("c10:first", "context %s created running in block %d got no first batch when the block ended", short(id), h)
			}
			// a due batch of an undisturbed running context must start
			if n := len(t.batches); n > 0 && t.stable && p0.State == stRunning && t.repeated &&
				(p0.RepeatedTotal < 0 || int64(p0.BatchCounter) < p0.RepeatedTotal) &&
				t.freqAt < 1<<40 && h == t.batches[n-1]+int64(t.freqAt) && !pausedForFunds && alive {
				o.fail("c10:missed", "context %s: batch due at height %d (previous %d, frequency %d) did not start", short(id), h, t.batches[n-1], t.freqAt)
			}
		}
	}
	if a.Kind == KUpdateCtx || a.Kind == KModUpdate {
		// "with unchanged timeout and frequency": they are changed only by an update that names new ones
		// (zero means "keep"); an update of something else leaves the cadence alone
		if p0, ok0 := pre.Ctxs[a.CtxID]; ok0 {
			if p1, ok1 := post.Ctxs[a.CtxID]; ok1 {
				wantF, wantT := p0.RepeatedFrequency, p0.Timeout
				if a.Freq != 0 {
					wantF = a.Freq
				}
				if a.Timeout != 0 {
					wantT = a.Timeout
				}
				if p1.RepeatedFrequency != wantF || p1.Timeout != wantT {
					o.fail("c10:update_cadence", "update of context %s naming timeout %d / frequency %d left timeout %d / frequency %d (were %d / %d)",
						short(a.CtxID), a.Timeout, a.Freq, p1.Timeout, p1.RepeatedFrequency, p0.Timeout, p0.RepeatedFrequency)
				}
				if a.Freq == 0 && a.Timeout == 0 {
					o.hit("update_not_naming_timeout_or_frequency")
				}
			}
		}
	}
	for _, id := range sortedKeys(post.Ctxs) {
		o.observe(id, post.Ctxs[id])
	}
	if a.Kind == KRestart {
		// the restart ends every batch in flight (fees refunded, no expiry left): the next batch may start at once
		// (a one-shot context whose batch was cancelled by the restart may be started again and then issues
		// that batch anew: C19 says the restart leaves every context paused, C10 does not speak of restarts;
		// the total of a repeated context, which survives the restart with the batch counter, still binds)
		for _, t := range o.tr {
			t.stable, t.disturbed, t.timeoutAt, t.restarted = false, true, 0, true
		}
	}
	if targetsCtx(a) {
		if rc, ok := pre.Ctxs[a.CtxID]; ok && rc.Repeated && int64(rc.BatchCounter) == rc.RepeatedTotal {
			if rc.BatchState == types.BATCHRUNNING && (a.Kind == KPause || a.Kind == KModPause) {
				o.hit("pause_during_last_batch")
			}
			if rc.BatchState == types.BATCHCOMPLETED && (a.Kind == KStart || a.Kind == KModStart) {
				o.hit("start_after_last_batch_expired")
			}
		}
	}
	return o.take()
}

func (o *c10) NonTrivial() bool {
	c := o.cls
	return (c["two_batches"] > 0 && c["batch_after_pause_or_update"] > 0) || c["total_reached"] > 0
}

// ---------------------------------------------------------------------------------------------
// C11 — a running context is never stranded.

type c11 struct {
	oracleBase
	m *Model
}

func newC11(w *World, m *Model) *c11 { return &c11{oracleBase: newBase("C11", w), m: m} }

// c11sig: signature from the context of the offending request context (huge frequencies are
// the trigger of a listed finding)
func c11sig(s *Snapshot, cid string, kind string) string {
	if rc, ok := s.Ctxs[cid]; ok && rc.RepeatedFrequency >= 1<<62 {
		return "c11:frequency>=2^62"
	}
	return "c11:" + kind
}

func (o *c11) Step(r *StepRec) []Violation {
	s := r.Post
	kind := r.Action.Kind
	cur := s.Height
	expBy, newBy := map[string][]int64{}, map[string][]int64{}
	for _, q := range s.ExpQ {
		expBy[q.Ctx] = append(expBy[q.Ctx], q.Height)
	}
	for _, q := range s.NewQ {
		newBy[q.Ctx] = append(newBy[q.Ctx], q.Height)
	}
	check := func(name string, by map[string][]int64, ptr map[string]int64) {
		for _, cid := range sortedKeys(by) {
			hs := by[cid]
			if len(hs) > 1 {
				o.fail(c11sig(s, cid, kind), "context %s has %d %s events: %v", short(cid), len(hs), name, hs)
			}
			if _, ok := s.Ctxs[cid]; !ok {
				o.fail(c11sig(r.Pre, cid, kind), "%s event at height %d refers to missing context %s", name, hs[0], short(cid))
			}
			for _, h := range hs {
				if h < cur {
					o.fail(c11sig(s, cid, kind), "%s event of context %s at height %d lies in the past (current height %d)", name, short(cid), h, cur)
				}
			}
			if p, ok := ptr[cid]; !ok || p != hs[0] {
				o.fail(c11sig(s, cid, kind), "%s event of context %s at height %d, its height index says %v (present=%v)", name, short(cid), hs[0], p, ok)
			}
		}
		for _, cid := range sortedKeys(ptr) {
			if len(by[cid]) == 0 {
				o.fail(c11sig(s, cid, kind), "%s height index of context %s points to %d but no queue entry exists", name, short(cid), ptr[cid])
			}
		}
	}
	check("expiry", expBy, s.ExpH)
	check("new-batch", newBy, s.NewH)
	for _, cid := range sortedKeys(s.Ctxs) {
		rc := s.Ctxs[cid]
		n := len(expBy[cid]) + len(newBy[cid])
		if rc.State == stRunning && n != 1 {
			o.fail(c11sig(s, cid, kind), "running context %s has %d pending scheduled events (expiry %v, new-batch %v) after %s", short(cid), n, expBy[cid], newBy[cid], kind)
		}
		if rc.State == stRunning && len(expBy[cid]) == 1 && rc.RepeatedFrequency == uint64(rc.Timeout) && rc.Repeated {
			o.hit("frequency_equals_timeout_in_flight")
		}
	}
	for _, id := range sortedKeys(s.ActiveID) {
		rq, ok := s.Reqs[id]
		if !ok {
			o.fail("c11:"+kind, "pending marker %s has no request record", short(id))
			continue
		}
		cid := hx(rq.RequestContextId)
		rc, ok := s.Ctxs[cid]
		if !ok {
			o.fail("c11:"+kind, "pending request %s belongs to missing context %s", short(id), short(cid))
			continue
		}
		if rq.RequestContextBatchCounter != rc.BatchCounter {
			o.fail(c11sig(s, cid, kind), "pending request %s is of batch %d, context is at batch %d", short(id), rq.RequestContextBatchCounter, rc.BatchCounter)
		}
		if h, ok := s.ExpH[cid]; !ok || h != rq.ExpirationHeight {
			o.fail(c11sig(s, cid, kind), "pending request %s expires at %d but its context's pending expiry is %v (present=%v)", short(id), rq.ExpirationHeight, h, ok)
		}
	}
	// classification: lifecycle message landing in the block of a batch start or expiry
	if r.OK && targetsCtx(r.Action) {
		for _, q := range append(append([]QEntry{}, r.Pre.ExpQ...), r.Pre.NewQ...) {
			if q.Ctx == r.Action.CtxID && q.Height == r.Height {
				o.hit("lifecycle_msg_in_event_block")
			}
		}
	}
	return o.take()
}

func (o *c11) NonTrivial() bool {
	return o.cls["lifecycle_msg_in_event_block"] > 0 || o.cls["frequency_equals_timeout_in_flight"] > 0
}

// ---------------------------------------------------------------------------------------------
// C12 — batch bookkeeping and module callbacks are exact.

type batchTrack struct {
	counter   uint64
	issued    int
	accepted  int
	outputs   []string
	threshold uint32
	expiry    int64
	completed bool
	module    string
}

type c12 struct {
	oracleBase
	m  *Model
	bt map[string]*batchTrack
}

func newC12(w *World, m *Model) *c12 { return &c12{oracleBase: newBase("C12", w), m: m, bt: map[string]*batchTrack{}} }

func cbKey(kind, ctx string, outs []string, hasErr bool) string {
	s := append([]string{}, outs...)
	sort.Strings(s)
	return fmt.Sprintf("%s|%s|%v|%q", kind, short(ctx), hasErr, s)
}

func (o *c12) Step(r *StepRec) []Violation {
	if !r.OK {
		if len(r.CBs) != 0 {
			o.fail("c12:cb_failed_tx", "callbacks recorded for a failed transaction")
		}
		return o.take()
	}
	a, pre, post := r.Action, r.Pre, r.Post
	var wantCB []string
	expectResp := func(cid string, t *batchTrack) {
		if t.module != "" {
			wantCB = append(wantCB, cbKey("response", cid, t.outputs, len(t.outputs) < int(t.threshold)))
			if len(t.outputs) < int(t.threshold) {
				o.hit("module_batch_below_threshold")
			} else {
				o.hit("module_batch_threshold_met")
			}
		}
	}
	if a.Kind == KRestart {
		// every context restarts with no batch in flight and zeroed counts; no callbacks
		for _, t := range o.bt {
			t.completed, t.issued, t.accepted, t.outputs, t.expiry = true, 0, 0, nil, 0
		}
	}
	// 1. accepted response
	if a.Kind == KRespond {
		if ri, ok := o.m.Reqs[a.ReqID]; ok {
			if t := o.bt[ri.Ctx]; t != nil && t.counter == ri.Batch {
				t.accepted++
				if a.Output != "" {
					t.outputs = append(t.outputs, a.Output)
				}
				if t.accepted == t.issued && !t.completed {
					t.completed = true
					o.hit("batch_completed_early")
					if t.module != "" {
						o.hit("module_batch_completed_early")
					}
					expectResp(ri.Ctx, t)
				}
			}
		}
	}
	// 2. end of block: expiries first, then batch starts
	if a.Kind == KEndBlock {
		for _, cid := range sortedKeys(o.bt) {
			t := o.bt[cid]
			if !t.completed && t.expiry == r.Height {
				t.completed = true
				o.hit("batch_completed_at_expiry")
				if t.issued == 0 {
					o.hit("skipped_batch_expired")
				}
				if rc, ok := pre.Ctxs[cid]; ok && rc.State != stRunning {
					o.hit("batch_expired_while_paused_or_killed")
				}
				expectResp(cid, t)
			}
		}
	}
	for _, cid := range sortedKeys(post.Ctxs) {
		p1 := post.Ctxs[cid]
		p0, inPre := pre.Ctxs[cid]
		started := (inPre && p1.BatchCounter == p0.BatchCounter+1) || (!inPre && p1.BatchCounter == 1)
		if started {
			at := p1
			if inPre {
				at = p0
			}
			t := &batchTrack{counter: p1.BatchCounter, issued: len(newReqsOf(r, cid)), threshold: at.ResponseThreshold,
				expiry: r.Height + at.Timeout, module: p1.ModuleName}
			o.bt[cid] = t
			if t.issued == 0 {
				o.hit("batch_skipped")
			}
			for _, id := range newReqsOf(r, cid) { // synchronous module-service answer
				if resp, ok := post.Resps[id]; ok {
					t.accepted++
					if resp.Output != "" {
						t.outputs = append(t.outputs, resp.Output)
					}
				}
			}
			if t.issued > 0 && t.accepted == t.issued {
				t.completed = true
			}
		}
		if inPre && a.Kind == KEndBlock && p0.State == stRunning && p1.State == stPaused && p1.ModuleName != "" &&
			reactionIn(r, cid) != "pause" { // paused for funds, not by its own module from inside the response callback
			wantCB = append(wantCB, cbKey("state", cid, nil, false))
			o.hit("module_state_callback")
		}
	}
	for cid := range o.bt {
		if _, ok := post.Ctxs[cid]; !ok {
			delete(o.bt, cid)
		}
	}
	// 3. compare bookkeeping
	for _, cid := range sortedKeys(post.Ctxs) {
		rc := post.Ctxs[cid]
		t := o.bt[cid]
		if t == nil {
			if rc.BatchCounter != 0 {
				o.fail("c12:untracked", "context %s is at batch %d but no batch start was observed", short(cid), rc.BatchCounter)
			}
			continue
		}
		if int(rc.BatchRequestCount) != t.issued || int(rc.BatchResponseCount) != t.accepted {
			o.fail("c12:counts:"+a.Kind, "context %s batch %d records %d requests / %d responses; %d were issued, %d accepted",
				short(cid), rc.BatchCounter, rc.BatchRequestCount, rc.BatchResponseCount, t.issued, t.accepted)
		}
		if rc.BatchResponseThreshold != t.threshold {
			o.fail("c12:threshold:"+a.Kind, "context %s batch %d runs under response threshold %d, the threshold in force when it started was %d",
				short(cid), rc.BatchCounter, rc.BatchResponseThreshold, t.threshold)
		}
		wantState := types.BATCHRUNNING
		if t.completed {
			wantState = types.BATCHCOMPLETED
		}
		if rc.BatchState != wantState {
			o.fail("c12:state:"+a.Kind, "context %s batch %d is marked %s, expected %s (issued %d, accepted %d, expiry %d, height %d)",
				short(cid), rc.BatchCounter, rc.BatchState, wantState, t.issued, t.accepted, t.expiry, r.Height)
		}
		if t.expiry > r.Height || (t.expiry == r.Height && a.Kind != KEndBlock) {
			// the batch has not expired yet: its records are stored and their numbers agree
			prefix := append(unhx(cid), be64(rc.BatchCounter)...)
			nReq, nResp := 0, 0
			for id := range post.Reqs {
				if bytes.HasPrefix(unhx(id), prefix) {
					nReq++
				}
			}
			for id := range post.Resps {
				if bytes.HasPrefix(unhx(id), prefix) {
					nResp++
				}
			}
			if nReq != t.issued || nResp != t.accepted {
				o.fail("c12:records:"+a.Kind, "context %s batch %d: %d request / %d response records stored; %d issued, %d accepted", short(cid), rc.BatchCounter, nReq, nResp, t.issued, t.accepted)
			}
		}
	}
	// 4. callbacks
	var gotCB []string
	for _, cb := range r.CBs {
		gotCB = append(gotCB, cbKey(cb.Kind, cb.Ctx, cb.Outputs, cb.HasErr))
	}
	sort.Strings(gotCB)
	sort.Strings(wantCB)
	if strings.Join(gotCB, ";") != strings.Join(wantCB, ";") {
		o.fail("c12:callbacks:"+a.Kind, "module callbacks in %s: got %v, expected %v", a.Kind, gotCB, wantCB)
	}
	return o.take()
}

func (o *c12) NonTrivial() bool {
	c := o.cls
	return c["module_batch_completed_early"] > 0 || (c["module_batch_below_threshold"] > 0 && c["batch_completed_at_expiry"] > 0) || c["module_state_callback"] > 0
}

// updateMismatch compares the configuration after a successful update with what the update named:
// a named field takes the given value, an omitted one (empty list, no coins, zero) keeps its value.
func updateMismatch(a Action, p0, p1 types.RequestContext) string {
	wantProv := provHexes(p0)
	if len(a.Providers) > 0 {
		wantProv = a.Providers
	}
	if !sameAddrs(wantProv, provHexes(p1)) {
		return fmt.Sprintf("providers are %v, expected %v", provHexes(p1), wantProv)
	}
	wantCap := p0.ServiceFeeCap.String()
	if c := a.capOf(); len(c) > 0 {
		wantCap = c.String()
	}
	if p1.ServiceFeeCap.String() != wantCap {
		return fmt.Sprintf("fee cap is %s, expected %s", p1.ServiceFeeCap, wantCap)
	}
	wantTimeout := p0.Timeout
	if a.Timeout != 0 {
		wantTimeout = a.Timeout
	}
	if p1.Timeout != wantTimeout {
		return fmt.Sprintf("timeout is %d, expected %d", p1.Timeout, wantTimeout)
	}
	wantFreq := p0.RepeatedFrequency
	if a.Freq != 0 {
		wantFreq = a.Freq
	}
	if p1.RepeatedFrequency != wantFreq {
		return fmt.Sprintf("frequency is %d, expected %d (the update named %d)", p1.RepeatedFrequency, wantFreq, a.Freq)
	}
	wantTotal := p0.RepeatedTotal
	if a.Total != 0 {
		wantTotal = a.Total
	}
	if p1.RepeatedTotal != wantTotal {
		return fmt.Sprintf("total is %d, expected %d", p1.RepeatedTotal, wantTotal)
	}
	wantThr := p0.ResponseThreshold
	if a.Kind == KModUpdate && a.Threshold != 0 {
		wantThr = a.Threshold
	}
	if p1.ResponseThreshold != wantThr {
		return fmt.Sprintf("response threshold is %d, expected %d", p1.ResponseThreshold, wantThr)
	}
	return ""
}
