package harness

import (
	"bytes"
	"fmt"
	"math/big"
	"sort"
	"strings"

	sdk "github.com/cosmos/cosmos-sdk/types"

	"github.com/irismod/service/types"
)

// ---------------------------------------------------------------------------------------------
// C13 — earnings are accounted per provider and per owner and paid out exactly.

type c13 struct {
	oracleBase
	m *Model
}

func newC13(w *World, m *Model) *c13 { return &c13{oracleBase: newBase("C13", w), m: m} }

func earnedMap(s *Snapshot) map[string]int64 {
	out := map[string]int64{}
	for _, e := range s.Earned {
		out[e.KeyBody] += e.Amount
	}
	return out
}

func (o *c13) Step(r *StepRec) []Violation {
	a, pre, post := r.Action, r.Pre, r.Post
	// invariant, per denomination: owner total == sum over its providers
	for _, dn := range coinDenoms {
		sums := map[string]int64{}
		for _, e := range post.Earned {
			if e.Denom != dn {
				continue
			}
			ow, ok := post.Owner[e.Provider]
			if !ok {
				o.fail("c13:noowner:"+a.Kind, "earnings recorded for provider %s that has no owner", short(e.Provider))
				continue
			}
			sums[ow] += e.Amount
		}
		oe := post.ownerEarnIn(dn)
		for _, ow := range sortedAddrs(sums, oe) {
			if sums[ow] != oe[ow] {
				o.fail(o.sig(r), "owner %s: recorded earnings %d%s, its providers' earnings sum to %d%s after %s", short(ow), oe[ow], dn, sums[ow], dn, a.Kind)
				break
			}
		}
	}
	for _, e := range post.Earned {
		if e.Denom != "stake" && e.Denom != "point" {
			o.fail("c13:denom:"+a.Kind, "earnings recorded in a coin that does not exist: %s", e.Denom)
		}
	}
	if !r.OK {
		return o.take()
	}
	// withdrawal address: only the owner's own message changes it
	for _, ow := range sortedKeys(mergeKeys(pre.Withdraw, post.Withdraw)) {
		if pre.Withdraw[ow] != post.Withdraw[ow] {
			if !(a.Kind == KSetWithdr && a.Signer == ow && post.Withdraw[ow] == a.Withdraw) {
				o.fail("c13:waddr:"+a.Kind, "withdrawal address of %s changed in %s signed by %s", short(ow), a.Kind, short(a.Signer))
			}
		}
	}
	if a.Kind == KSetWithdr {
		eff := a.Signer
		if wa, ok := post.Withdraw[a.Signer]; ok {
			eff = wa
		}
		if eff != a.Withdraw {
			o.fail("c13:waddr_set", "owner %s set its withdrawal address to %s, but withdrawals would now go to %s", short(a.Signer), short(a.Withdraw), short(eff))
		}
		if pw, ok := pre.Withdraw[a.Signer]; ok && pw != a.Signer && a.Withdraw == a.Signer {
			o.hit("withdraw_addr_reset_to_owner")
		}
		if len(pre.Earned) > 0 {
			o.hit("withdraw_addr_set_after_earnings")
		} else {
			o.hit("withdraw_addr_set_before_earnings")
		}
	}
	if a.Kind != KWithdraw {
		return o.take()
	}
	o.hit("withdrawal")
	preE, postE := earnedMap(pre), earnedMap(post)
	to := a.Signer
	if wa, ok := pre.Withdraw[a.Signer]; ok {
		to = wa
		o.hit("withdrawal_to_set_address")
	}
	paid := map[string]int64{}  // per denomination
	zeroed := map[string]bool{} // key bodies expected to be zero afterwards
	if a.Provider != "" {
		o.hit("per_provider_withdrawal")
		for _, e := range pre.Earned {
			if e.Provider == a.Provider {
				zeroed[e.KeyBody] = true
				paid[e.Denom] += e.Amount
			} else if strings.HasPrefix(e.Provider, a.Provider) || strings.HasPrefix(a.Provider, e.Provider) {
				o.hit("prefix_related_provider_with_earnings")
			}
		}
		for _, dn := range coinDenoms {
			if want := pre.ownerEarnIn(dn)[a.Signer] - paid[dn]; post.ownerEarnIn(dn)[a.Signer] != want {
				o.fail(o.sig(r), "owner total after per-provider withdrawal is %d%s, expected %d%s", post.ownerEarnIn(dn)[a.Signer], dn, want, dn)
			}
		}
	} else {
		o.hit("whole_owner_withdrawal")
		n := 0
		for _, dn := range coinDenoms {
			paid[dn] = pre.ownerEarnIn(dn)[a.Signer]
		}
		for _, e := range pre.Earned {
			if pre.Owner[e.Provider] == a.Signer {
				zeroed[e.KeyBody] = true
				if e.Amount > 0 {
					n++
				}
			}
		}
		if n >= 2 {
			o.hit("owner_withdrawal_over_several_providers")
		}
		for _, dn := range coinDenoms {
			if v := post.ownerEarnIn(dn)[a.Signer]; v != 0 {
				o.fail(o.sig(r), "owner total after whole-owner withdrawal is %d%s", v, dn)
			}
		}
	}
	if paid["stake"] > 0 || paid["point"] > 0 {
		o.hit("nonzero_withdrawal")
	}
	if paid["stake"] > 0 && paid["point"] > 0 {
		o.hit("withdrawal_in_two_coins")
	}
	if pre.ownerEarnIn("stake")[a.Signer] > 0 && pre.ownerEarnIn("point")[a.Signer] > 0 {
		o.hit("owner_holds_earnings_in_two_coins")
	}
	for _, kb := range sortedKeys(mergeKeys(preE, postE)) {
		if zeroed[kb] {
			if postE[kb] != 0 {
				o.fail(o.sig(r), "paid earnings record %s still holds %d", short(kb), postE[kb])
			}
		} else if preE[kb] != postE[kb] {
			o.fail(o.sig(r), "earnings record %s of another provider changed %d -> %d in a withdrawal", short(kb), preE[kb], postE[kb])
		}
	}
	for _, dn := range coinDenoms {
		po, qo := pre.ownerEarnIn(dn), post.ownerEarnIn(dn)
		for _, ow := range sortedAddrs(po, qo) {
			if ow != a.Signer && po[ow] != qo[ow] {
				o.fail(o.sig(r), "earnings of another owner %s changed %d -> %d (%s) in a withdrawal", short(ow), po[ow], qo[ow], dn)
			}
		}
		diff := balanceDiffIn(pre, post, dn)
		want := map[string]int64{}
		if paid[dn] != 0 {
			want[o.w.RequestAcc] -= paid[dn]
			want[to] += paid[dn]
		}
		for _, acc := range sortedAddrs(diff, want) {
			if diff[acc] != want[acc] {
				o.fail(o.sig(r), "withdrawal of %d%s to %s: account %s moved by %d, expected %d", paid[dn], dn, short(to), short(acc), diff[acc], want[acc])
				break
			}
		}
	}
	return o.take()
}

func (o *c13) sig(r *StepRec) string { return "c13:" + r.Action.Kind }

func mergeKeys[V any](ms ...map[string]V) map[string]bool {
	out := map[string]bool{}
	for _, m := range ms {
		for k := range m {
			out[k] = true
		}
	}
	return out
}

func (o *c13) NonTrivial() bool {
	c := o.cls
	return (c["nonzero_withdrawal"] >= 2) || c["prefix_related_provider_with_earnings"] > 0 || c["owner_withdrawal_over_several_providers"] > 0
}

// ---------------------------------------------------------------------------------------------
// C14 — an available binding always holds the minimum deposit for its price.

type c14 struct {
	oracleBase
	m *Model
	// bindings that a governance parameter change left available below the (new) minimum: the
	// property speaks of "the parameters in force", so they are tolerated while nothing touches them
	inherited map[string]bool
}

func newC14(w *World, m *Model) *c14 {
	return &c14{oracleBase: newBase("C14", w), m: m, inherited: map[string]bool{}}
}

func (o *c14) Step(r *StepRec) []Violation {
	a, pre, post := r.Action, r.Pre, r.Post
	touched := ""
	if r.OK && (a.Kind == KBind || a.Kind == KUpdateBind || a.Kind == KEnable) {
		touched = bkey(a.Service, a.Provider)
	}
	for _, bk := range sortedKeys(post.Binds) {
		b := post.Binds[bk]
		if !b.Available {
			delete(o.inherited, bk)
			continue
		}
		rp, err := ParseRefPricing(b.Pricing)
		if err != nil {
			o.hit("unparsed_pricing")
			continue
		}
		min := o.w.cfg.MinDepositFor(o.w.cfg.InBase(rp))
		d := stakeOf(b.Deposit)
		if d >= min {
			delete(o.inherited, bk)
			continue
		}
		if r.OK && a.Kind == KSetParams {
			o.inherited[bk] = true
			o.hit("left_below_minimum_by_parameter_change")
			continue
		}
		p0, existed := pre.Binds[bk]
		_ = touched
		if o.inherited[bk] && existed && p0.Available && stakeOf(p0.Deposit) == d && p0.Pricing == b.Pricing {
			continue // still as the parameter change left it
		}
		o.fail("c14:"+a.Kind, "available binding %s holds %d, minimum for base price %d is %d (after %s, ok=%v)", bk, d, rp.Base, min, a.Kind, r.OK)
	}
	// classification (attempts count, whether accepted or rejected)
	bk := bkey(a.Service, a.Provider)
	pb, existed := pre.Binds[bk]
	near := func(total int64, base int64) {
		min := o.w.cfg.MinDepositFor(base)
		if total >= min-1 && total <= min+1 {
			o.hit("deposit_at_threshold_pm1")
		}
	}
	switch a.Kind {
	case KBind:
		if rp, err := ParseRefPricing(a.Pricing); err == nil && a.Deposit != nil && !existed {
			near(*a.Deposit, o.w.cfg.InBase(rp))
		}
	case KUpdateBind:
		if existed && a.Pricing != "" {
			oldp, _ := ParseRefPricing(pb.Pricing)
			if np, err := ParseRefPricing(a.Pricing); err == nil {
				if np.Base > oldp.Base && pb.Available {
					o.hit("price_raised_on_available_binding")
					add := int64(0)
					if a.Deposit != nil {
						add = *a.Deposit
					}
					if stakeOf(pb.Deposit)+add < o.w.cfg.MinDepositFor(o.w.cfg.InBase(np)) {
						o.hit("price_raise_would_underfund")
					}
				}
				if np.Base < oldp.Base {
					o.hit("price_lowered")
				}
			}
		}
		if existed && a.Deposit != nil {
			o.hit("deposit_top_up")
		}
	case KEnable:
		if existed && !pb.Available {
			add := int64(0)
			if a.Deposit != nil {
				add = *a.Deposit
			}
			if rp, err := ParseRefPricing(pb.Pricing); err == nil {
				near(stakeOf(pb.Deposit)+add, o.w.cfg.InBase(rp))
			}
		}
	}
	if r.OK {
		for _, bk := range sortedKeys(post.Binds) {
			if p0, ok := pre.Binds[bk]; ok && p0.Available && !post.Binds[bk].Available && a.Kind != KDisable {
				o.hit("slash_crossed_threshold")
			}
		}
	}
	return o.take()
}

func (o *c14) NonTrivial() bool {
	c := o.cls
	return c["price_raised_on_available_binding"] > 0 || c["deposit_at_threshold_pm1"] > 0 || c["slash_crossed_threshold"] > 0
}

// ---------------------------------------------------------------------------------------------
// C15 — definitions and bindings are unique, stable and consistently indexed.

type c15 struct {
	oracleBase
	m *Model
}

func newC15(w *World, m *Model) *c15 { return &c15{oracleBase: newBase("C15", w), m: m} }

func ratOfDec(d sdk.Dec) *big.Rat {
	r, _ := new(big.Rat).SetString(d.String())
	return r
}

func pricingMatches(p types.Pricing, rp RefPricing) string {
	amt := int64(0)
	for _, c := range p.Price {
		if c.Denom == rp.Denom {
			amt = mustI64(c.Amount)
		}
	}
	if len(p.Price) != 1 || p.Price[0].Denom != rp.Denom {
		return fmt.Sprintf("price %s vs published %d%s", p.Price, rp.Base, rp.Denom)
	}
	if amt != rp.Base {
		return fmt.Sprintf("price %d vs published %d", amt, rp.Base)
	}
	if len(p.PromotionsByTime) != len(rp.ByTime) || len(p.PromotionsByVolume) != len(rp.ByVol) {
		return "promotion counts differ"
	}
	for i, t := range p.PromotionsByTime {
		if satNs(t.StartTime) != rp.ByTime[i].StartNs || satNs(t.EndTime) != rp.ByTime[i].EndNs || ratOfDec(t.Discount).Cmp(rp.ByTime[i].Discount) != 0 {
			return fmt.Sprintf("time promotion %d differs", i)
		}
	}
	for i, v := range p.PromotionsByVolume {
		if v.Volume != rp.ByVol[i].Volume || ratOfDec(v.Discount).Cmp(rp.ByVol[i].Discount) != 0 {
			return fmt.Sprintf("volume promotion %d differs", i)
		}
	}
	return ""
}

func (o *c15) Step(r *StepRec) []Violation {
	a, pre, post := r.Action, r.Pre, r.Post
	sig := "c15:" + a.Kind
	// definitions: never change or disappear; added only by a successful define of that name
	for _, n := range sortedKeys(pre.Defs) {
		k := string(append([]byte{0x01}, n...))
		if !bytes.Equal(pre.Raw[k], post.Raw[k]) {
			o.fail(sig, "definition %q changed or disappeared in %s", n, a.Kind)
		}
	}
	for _, n := range sortedKeys(post.Defs) {
		if _, ok := pre.Defs[n]; !ok {
			if !(r.OK && a.Kind == KDefine && a.Service == n) {
				o.fail(sig, "definition %q appeared in %s", n, a.Kind)
			}
		}
		d := post.Defs[n]
		if d.Name != n {
			o.fail(sig, "definition stored under %q is named %q", n, d.Name)
		}
		if err := d.Validate(); err != nil {
			o.fail(sig, "stored definition %q is invalid: %v", n, err)
		}
	}
	if a.Kind == KDefine && !r.InTx {
		if _, ok := pre.Defs[a.Service]; ok {
			o.hit("redefine_attempt")
			if r.OK {
				o.fail(sig, "second definition of %q accepted", a.Service)
			}
		}
	}
	// bindings
	if a.Kind == KBind && !r.InTx {
		if _, ok := pre.Binds[bkey(a.Service, a.Provider)]; ok {
			o.hit("rebind_attempt")
			if r.OK {
				o.fail(sig, "second binding of %s accepted", bkey(a.Service, a.Provider))
			}
		}
		if ow, ok := pre.Owner[a.Provider]; ok && ow != a.Signer {
			o.hit("cross_owner_bind_attempt")
		}
	}
	for _, bk := range sortedKeys(pre.Binds) {
		b1, ok := post.Binds[bk]
		if !ok {
			o.fail(sig, "binding %s disappeared in %s", bk, a.Kind)
			continue
		}
		if !pre.Binds[bk].Owner.Equals(b1.Owner) {
			o.fail(sig, "owner of binding %s changed in %s", bk, a.Kind)
		}
	}
	wantOB, wantOP := map[string]bool{}, map[string]bool{}
	for _, bk := range sortedKeys(post.Binds) {
		b := post.Binds[bk]
		if _, ok := pre.Binds[bk]; !ok && !(r.OK && a.Kind == KBind && bkey(a.Service, a.Provider) == bk) {
			o.fail(sig, "binding %s appeared in %s", bk, a.Kind)
		}
		if !post.BindKeyOK[bk] {
			o.fail(sig, "binding %s is stored under a key that does not match its service and provider", bk)
		}
		if _, ok := post.Defs[b.ServiceName]; !ok {
			o.fail(sig, "binding %s refers to an undefined service", bk)
		}
		if ow, ok := post.Owner[hx(b.Provider)]; !ok || ow != hx(b.Owner) {
			o.fail(sig, "provider %s of binding %s: recorded owner %q, binding owner %s", short(hx(b.Provider)), bk, short(ow), short(hx(b.Owner)))
		}
		if err := b.Validate(); err != nil {
			o.fail("c15:validate:"+a.Kind, "stored binding %s is invalid by the module's own rules: %v (deposit %q)", bk, err, b.Deposit.String())
		}
		wantOB[hx(b.Owner)+"|"+b.ServiceName+"|"+hx(b.Provider)] = true
		wantOP[hx(b.Owner)+hx(b.Provider)] = true
		pk := b.ServiceName + "\x00" + b.Provider.String()
		if sp, ok := post.Pricing[pk]; !ok {
			o.fail(sig, "binding %s has no stored price terms", bk)
		} else if rp, err := ParseRefPricing(b.Pricing); err == nil {
			if why := pricingMatches(sp, rp); why != "" {
				o.fail("c15:pricing:"+a.Kind, "stored price terms of %s do not correspond to its published pricing %s: %s", bk, b.Pricing, why)
			}
		} else {
			o.hit("unparsed_pricing")
		}
	}
	if len(post.Pricing) != len(post.Binds) {
		o.fail(sig, "%d price-term records for %d bindings", len(post.Pricing), len(post.Binds))
	}
	// provider -> owner: for life
	for _, p := range sortedKeys(pre.Owner) {
		if post.Owner[p] != pre.Owner[p] {
			o.fail(sig, "owner of provider %s changed %s -> %s in %s", short(p), short(pre.Owner[p]), short(post.Owner[p]), a.Kind)
		}
	}
	// index 0x03 and 0x05 contain exactly what the bindings imply
	gotOB := map[string]bool{}
	for _, e := range post.OwnerBinds {
		k := e.Owner + "|" + e.Service + "|" + e.Provider
		if gotOB[k] {
			o.fail(sig, "duplicate owner-binding index entry %s", k)
		}
		gotOB[k] = true
	}
	if fmt.Sprint(sortedKeys(gotOB)) != fmt.Sprint(sortedKeys(wantOB)) {
		o.fail(sig, "owner-binding index %v, bindings imply %v", sortedKeys(gotOB), sortedKeys(wantOB))
	}
	if fmt.Sprint(sortedKeys(post.OwnerProvs)) != fmt.Sprint(sortedKeys(wantOP)) {
		o.fail(sig, "owner-provider index %v, bindings imply %v", sortedKeys(post.OwnerProvs), sortedKeys(wantOP))
	}
	// listings by service and by service+owner: exactly the bindings with that service (and owner)
	if r.OK && !r.InTx && (a.Kind == KBind || a.Kind == KDefine || r.Index%5 == 0) {
		o.checkListings(post, sig)
	}
	// classification
	nPrefix := 0
	owners := map[string]bool{}
	svcs := map[string]bool{}
	for _, b := range post.Binds {
		svcs[b.ServiceName] = true
		owners[hx(b.Owner)] = true
	}
	for s1 := range svcs {
		for s2 := range svcs {
			if s1 != s2 && strings.HasPrefix(s2, s1) {
				nPrefix++
			}
		}
	}
	if nPrefix > 0 && len(owners) >= 2 {
		o.hit("prefix_related_services_bound_by_two_owners")
	}
	return o.take()
}

func (o *c15) checkListings(s *Snapshot, sig string) {
	defer func() {
		if r := recover(); r != nil {
			o.fail("c15:list_panic", "listing bindings panicked: %v", r)
		}
	}()
	names := append([]string{}, ServiceNames...)
	names = append(names, ModSvcName)
	owners := append([]string{}, Signers...)
	ctx := o.w.ctx
	for _, n := range names {
		var want []string
		for _, bk := range sortedKeys(s.Binds) {
			if s.Binds[bk].ServiceName == n {
				want = append(want, bk)
			}
		}
		var got []string
		it := o.w.k.ServiceBindingsIterator(ctx, n)
		for ; it.Valid(); it.Next() {
			var b types.ServiceBinding
			o.w.app.AppCodec().MustUnmarshalBinaryBare(it.Value(), &b)
			got = append(got, bkey(b.ServiceName, hx(b.Provider)))
		}
		it.Close()
		sort.Strings(got)
		sort.Strings(want)
		if fmt.Sprint(got) != fmt.Sprint(want) {
			o.fail("c15:list", "bindings of service %q: listed %v, stored %v", n, got, want)
		}
		if len(want) > 0 {
			o.hit("listing_checked")
		}
		for _, ow := range owners {
			var wantO, gotO []string
			for _, bk := range want {
				if hx(s.Binds[bk].Owner) == ow {
					wantO = append(wantO, bk)
				}
			}
			for _, b := range o.w.k.GetOwnerServiceBindings(ctx, addr(ow), n) {
				gotO = append(gotO, bkey(b.ServiceName, hx(b.Provider)))
			}
			sort.Strings(gotO)
			if fmt.Sprint(gotO) != fmt.Sprint(wantO) {
				o.fail("c15:list_owner", "bindings of service %q and owner %s: listed %v, stored %v", n, short(ow), gotO, wantO)
			}
		}
	}
}

func (o *c15) NonTrivial() bool {
	return o.cls["prefix_related_services_bound_by_two_owners"] > 0
}

// ---------------------------------------------------------------------------------------------
// C16 — finished batches and contexts leave nothing behind.

type c16 struct {
	oracleBase
	m *Model
	// killed: contexts a successful kill has completed. A killed context has finished whatever its record
	// says later; only a zero-height restart, which pauses every context, starts it afresh.
	killed map[string]bool
}

func newC16(w *World, m *Model) *c16 {
	return &c16{oracleBase: newBase("C16", w), m: m, killed: map[string]bool{}}
}

func (o *c16) Step(r *StepRec) []Violation {
	a, pre, post := r.Action, r.Pre, r.Post
	sig := "c16:" + a.Kind
	if a.Kind == KRestart && r.OK {
		o.killed = map[string]bool{}
	}
	for _, rc := range post.Ctxs {
		if rc.BatchCounter%256 == 255 {
			o.hit("a_context_at_a_batch_counter_ending_in_ff")
			break
		}
	}
	if r.OK && (a.Kind == KKill || a.Kind == KModKill) {
		if rc, ok := post.Ctxs[a.CtxID]; ok && rc.State == stCompleted {
			o.killed[a.CtxID] = true
		}
	}
	for _, id := range sortedKeys(post.Reqs) {
		rq := post.Reqs[id]
		cid := hx(rq.RequestContextId)
		rc, ok := post.Ctxs[cid]
		if !ok {
			o.fail(sig, "request record %s belongs to no existing context", short(id))
		} else if rq.RequestContextBatchCounter != rc.BatchCounter {
			o.fail(sig, "request record %s of batch %d kept while its context is at batch %d", short(id), rq.RequestContextBatchCounter, rc.BatchCounter)
		}
		if !strings.HasPrefix(id, cid) {
			o.fail(sig, "request %s stored under an ID that does not start with its context %s", short(id), short(cid))
		}
	}
	for _, id := range sortedKeys(post.Resps) {
		if _, ok := post.Reqs[id]; !ok {
			o.fail(sig, "response record %s without its request", short(id))
		}
	}
	byBinding := map[string]bool{}
	for _, e := range post.ActiveB {
		if byBinding[e.ReqID] {
			o.fail(sig, "request %s listed twice in the per-binding pending index", short(e.ReqID))
		}
		byBinding[e.ReqID] = true
		if e.ReqID != e.ValReqID {
			o.fail(sig, "per-binding pending marker key %s holds value %s", short(e.ReqID), short(e.ValReqID))
		}
		rq, ok := post.Reqs[e.ReqID]
		if !ok {
			o.fail(sig, "pending marker (by binding) %s without its request", short(e.ReqID))
			continue
		}
		rc := post.Ctxs[hx(rq.RequestContextId)]
		if e.Service != rc.ServiceName || e.Provider != rq.Provider.String() || e.Height != rq.ExpirationHeight {
			o.fail(sig, "pending marker of %s filed under (%s,%s,%d), request says (%s,%s,%d)", short(e.ReqID), e.Service, e.Provider, e.Height,
				rc.ServiceName, rq.Provider.String(), rq.ExpirationHeight)
		}
	}
	for _, id := range sortedKeys(post.ActiveID) {
		if post.ActiveID[id] != id {
			o.fail(sig, "pending marker key %s holds value %s", short(id), short(post.ActiveID[id]))
		}
		if _, ok := post.Reqs[id]; !ok {
			o.fail(sig, "pending marker (by id) %s without its request", short(id))
		}
		if !byBinding[id] {
			o.fail(sig, "request %s pending by id but not listed for its binding", short(id))
		}
	}
	for id := range byBinding {
		if _, ok := post.ActiveID[id]; !ok {
			o.fail(sig, "request %s listed for its binding but not pending by id", short(id))
		}
	}
	if a.Kind == KEndBlock && r.OK {
		h := r.Height
		for _, id := range sortedKeys(post.Reqs) {
			if rq := post.Reqs[id]; rq.ExpirationHeight <= h {
				o.fail(sig, "request record %s (expiry %d) still stored after block %d ended", short(id), rq.ExpirationHeight, h)
			}
		}
		started := len(NewReqs(r)) > 0
		ended := false
		for _, q := range pre.ExpQ {
			if q.Height != h {
				continue
			}
			rc, ok := pre.Ctxs[q.Ctx]
			if !ok {
				continue
			}
			// the owning module may kill / pause the context from inside this expiry's response callback
			if react := reactionIn(r, q.Ctx); react == "kill" && rc.State == stRunning {
				rc.State = stCompleted
				o.hit("killed_by_its_module_at_expiry")
			} else if react == "pause" && rc.State == stRunning {
				rc.State = stPaused
			}
			finished := !rc.Repeated || rc.State == stCompleted || o.killed[q.Ctx] ||
				(rc.State == stRunning && rc.RepeatedTotal > 0 && int64(rc.BatchCounter) >= rc.RepeatedTotal)
			if o.killed[q.Ctx] {
				o.hit("killed_context_batch_expired")
			}
			_, alive := post.Ctxs[q.Ctx]
			if finished && alive {
				o.fail("c16:ctx_left:"+stateName(rc.State), "finished context %s (repeated=%v state=%s batch %d of %d) still stored after its batch expired at %d",
					short(q.Ctx), rc.Repeated, stateName(rc.State), rc.BatchCounter, rc.RepeatedTotal, h)
			}
			if !finished && !alive {
				o.fail("c16:ctx_removed", "unfinished context %s (state=%s batch %d of %d) removed when its batch expired", short(q.Ctx), stateName(rc.State), rc.BatchCounter, rc.RepeatedTotal)
			}
			if finished {
				ended = true
				o.hit("context_finished")
			}
			switch {
			case rc.BatchState == types.BATCHCOMPLETED && rc.BatchRequestCount > 0:
				o.hit("expiry_of_batch_completed_early")
			case rc.BatchRequestCount == 0:
				o.hit("expiry_of_skipped_batch")
			}
			if rc.State != stRunning {
				o.hit("expiry_while_paused_or_killed")
			}
		}
		if started && ended {
			o.hit("context_ends_where_another_starts")
		}
		// a running repeated context whose total is already reached and that comes due again (restarted
		// after its last batch expired while it was paused, or its total lowered to the batches it had)
		// has finished: it is removed, not kept
		for _, cid := range batchCandidates(pre, h) {
			rc, ok := pre.Ctxs[cid]
			if !ok || rc.State != stRunning || !totalReached(rc) {
				continue
			}
			o.hit("finished_context_due_again")
			if _, alive := post.Ctxs[cid]; alive {
				o.fail("c16:ctx_left:due_again", "context %s has had all %d of its batches and came due again at %d, but is still stored (batch %d)", short(cid), rc.RepeatedTotal, h, post.Ctxs[cid].BatchCounter)
			}
		}
	}
	return o.take()
}

func (o *c16) NonTrivial() bool {
	c := o.cls
	n := 0
	for _, k := range []string{"expiry_of_batch_completed_early", "expiry_of_skipped_batch", "expiry_while_paused_or_killed", "context_ends_where_another_starts"} {
		if c[k] > 0 {
			n++
		}
	}
	return n >= 2
}

// reactionIn: what the context's module did to it (successfully) from inside a response callback of this step
func reactionIn(r *StepRec, ctxID string) string {
	for _, cb := range r.CBs {
		if cb.Ctx == ctxID && cb.React != "" && cb.ReactOK {
			return cb.React
		}
	}
	return ""
}
