package harness

import (
	"encoding/binary"
	"encoding/json"
	"fmt"
	"reflect"
	"sort"
	"strings"

	gogotypes "github.com/gogo/protobuf/types"

	sdk "github.com/cosmos/cosmos-sdk/types"
)

// C18 (history part) — every issued request can be found again from its ID: the ID splits to
// (context, batch, issue height, index) and element `index` of that context's issue event of
// the issuing step equals the stored request. The lookup below re-implements what the
// documented client does (client/utils QueryRequestByTxQuery) over the captured events.

type c18 struct {
	oracleBase
	m *Model
	// issued: what the issue event announced for every request found through its ID; the request a client
	// gets from the module later (rebuilt from the compact record and its context) still says the same
	issued map[string]evReq
}

func newC18(w *World, m *Model) *c18 {
	return &c18{oracleBase: newBase("C18", w), m: m, issued: map[string]evReq{}}
}

type evCoin struct {
	Denom  string `json:"denom"`
	Amount string `json:"amount"`
}

type evReq struct {
	Ctx     string   `json:"request_context_id"`
	Counter uint64   `json:"request_context_batch_counter"`
	Prov    string   `json:"provider"`
	Fee     []evCoin `json:"service_fee"`
	ReqH    int64    `json:"request_height"`
	ExpH    int64    `json:"expiration_height"`
}

func (o *c18) Step(r *StepRec) []Violation {
	if !r.OK {
		return nil
	}
	post := r.Post
	if !r.InTx {
		o.liveScans(r)
	}
	ids := NewReqs(r)
	if len(ids) == 0 {
		return o.take()
	}
	// issue events of this step, by context
	byCtx := map[string][][]evReq{}
	for _, ev := range r.Events {
		if ev.Type != "new_batch_request" {
			continue
		}
		var cid, reqs string
		for _, at := range ev.Attributes {
			switch string(at.Key) {
			case "request_context_id":
				cid = strings.ToLower(string(at.Value))
			case "requests":
				reqs = string(at.Value)
			}
		}
		var list []evReq
		if err := json.Unmarshal([]byte(reqs), &list); err != nil {
			o.fail("c18:event", "issue event of context %s carries undecodable requests: %v", short(cid), err)
			continue
		}
		byCtx[cid] = append(byCtx[cid], list)
	}
	for _, id := range ids {
		rq := post.Reqs[id]
		raw := unhx(id)
		if len(raw) != 58 {
			o.fail("c18:idlen", "request ID %s has %d bytes", id, len(raw))
			continue
		}
		cid := hx(raw[:40])
		counter := binary.BigEndian.Uint64(raw[40:48])
		height := int64(binary.BigEndian.Uint64(raw[48:56]))
		index := int(int16(binary.BigEndian.Uint16(raw[56:58])))
		if cid != hx(rq.RequestContextId) || counter != rq.RequestContextBatchCounter || height != rq.RequestHeight || height != r.Height {
			o.fail("c18:idfields", "request ID %s encodes (ctx %s, batch %d, height %d), the request says (ctx %s, batch %d, height %d), issued at %d",
				short(id), short(cid), counter, height, short(hx(rq.RequestContextId)), rq.RequestContextBatchCounter, rq.RequestHeight, r.Height)
			continue
		}
		lists := byCtx[cid]
		if len(lists) != 1 {
			o.fail("c18:event", "context %s has %d issue events in the step that issued request %s", short(cid), len(lists), short(id))
			continue
		}
		list := lists[0]
		if index < 0 || index >= len(list) {
			o.fail("c18:index", "request %s has index %d but its issue event lists %d requests", short(id), index, len(list))
			continue
		}
		e := list[index]
		fee := ""
		for _, c := range rq.ServiceFee {
			fee += c.Amount.String() + c.Denom
		}
		efee := ""
		for _, c := range e.Fee {
			efee += c.Amount + c.Denom
		}
		if strings.ToLower(e.Ctx) != cid || e.Counter != counter || e.Prov != rq.Provider.String() || efee != fee || e.ReqH != rq.RequestHeight || e.ExpH != rq.ExpirationHeight {
			o.fail("c18:lookup", "request %s: element %d of its issue event is (provider %s, fee %s, heights %d/%d), stored request is (provider %s, fee %s, heights %d/%d)",
				short(id), index, e.Prov, efee, e.ReqH, e.ExpH, rq.Provider.String(), fee, rq.RequestHeight, rq.ExpirationHeight)
		}
		o.issued[id] = e
		o.hit("request_found_by_id")
		if index > 0 {
			o.hit("request_found_at_index>0")
		}
	}
	// and every listed element is a stored request with the ID its position implies
	for cid, lists := range byCtx {
		for _, list := range lists {
			for i, e := range list {
				want := hx(append(append(append(unhx(cid), be64(e.Counter)...), be64(uint64(r.Height))...), byte(i>>8), byte(i)))
				if _, ok := post.Reqs[want]; !ok {
					o.fail("c18:event_extra", "issue event of context %s lists element %d with no stored request under the ID its position implies", short(cid), i)
				}
			}
		}
	}
	if len(byCtx) >= 2 {
		o.hit("two_contexts_issue_in_one_block")
	}
	return o.take()
}

func (o *c18) NonTrivial() bool { return o.cls["request_found_at_index>0"] > 0 || o.cls["two_contexts_issue_in_one_block"] > 0 }

var _ = fmt.Sprint

// liveScans: "every prefix scan the module performs returns exactly the records of its subject", on the
// states the histories reach (also after a zero-height restart, at heights on both sides of a byte
// boundary ...): the module's own scan functions are asked and their answers compared with the raw
// snapshot. Runs on the committed state only (not inside a transaction).
func (o *c18) liveScans(r *StepRec) {
	w, post := o.w, r.Post
	ctx, k := w.ctx, w.k
	set := func(xs []string) string {
		ys := append([]string{}, xs...)
		sort.Strings(ys)
		return strings.Join(ys, ",")
	}
	// 0. a request looked up again later is still the one its issue event announced
	for _, id := range sortedKeys(post.Reqs) {
		e, ok := o.issued[id]
		if !ok {
			continue
		}
		rq, found := k.GetRequest(ctx, unhx(id))
		if !found {
			o.fail("c18:relookup", "request %s is stored but the module does not find it", short(id))
			continue
		}
		efee, fee := "", ""
		for _, c := range e.Fee {
			efee += c.Amount + c.Denom
		}
		for _, c := range rq.ServiceFee {
			fee += c.Amount.String() + c.Denom
		}
		if e.Prov != rq.Provider.String() || efee != fee || e.ReqH != rq.RequestHeight || e.ExpH != rq.ExpirationHeight {
			o.fail("c18:relookup", "request %s looked up after %s: the module answers (provider %s, fee %s, heights %d/%d), its issue event announced (provider %s, fee %s, heights %d/%d)",
				short(id), r.Action.Kind, rq.Provider.String(), fee, rq.RequestHeight, rq.ExpirationHeight, e.Prov, efee, e.ReqH, e.ExpH)
		}
	}
	for id := range o.issued {
		if _, ok := post.Reqs[id]; !ok {
			delete(o.issued, id)
		}
	}
	// 1. providers of an owner
	owners := map[string][]string{}
	for _, bk := range sortedKeys(post.Binds) {
		b := post.Binds[bk]
		ow, pv := hx(b.Owner), hx(b.Provider)
		dup := false
		for _, x := range owners[ow] {
			dup = dup || x == pv
		}
		if !dup {
			owners[ow] = append(owners[ow], pv)
		}
	}
	for _, ow := range append(append([]string{}, Signers...), sortedKeys(owners)...) {
		if len(ow) != 40 {
			continue // the index key carries a 20-byte owner (owners are signers)
		}
		var got []string
		it := k.OwnerProvidersIterator(ctx, addr(ow))
		for ; it.Valid(); it.Next() {
			got = append(got, hx(it.Key()[1+20:]))
		}
		it.Close()
		if set(got) != set(owners[ow]) {
			o.fail("c18:scan:owner_providers", "providers of owner %s: the module's scan lists %v, the bindings record %v (after %s)", short(ow), shortAll(got), shortAll(owners[ow]), r.Action.Kind)
		}
		if len(owners[ow]) > 0 {
			o.hit("live_scan_owner_providers")
		}
	}
	// 2. the two height queues, at every height that has an entry and at the current height
	heights := map[int64]bool{r.Post.Height: true}
	wantExp, wantNew := map[int64][]string{}, map[int64][]string{}
	for _, q := range post.ExpQ {
		heights[q.Height] = true
		wantExp[q.Height] = append(wantExp[q.Height], q.Ctx)
	}
	for _, q := range post.NewQ {
		heights[q.Height] = true
		wantNew[q.Height] = append(wantNew[q.Height], q.Ctx)
	}
	hs := make([]int64, 0, len(heights))
	for h := range heights {
		hs = append(hs, h)
	}
	sort.Slice(hs, func(i, j int) bool { return hs[i] < hs[j] })
	for _, h := range hs {
		var gotE, gotN []string
		gotE = callQueueIterator(k.IterateExpiredRequestBatch, ctx, h)
		gotN = callQueueIterator(k.IterateNewRequestBatch, ctx, h)
		if set(gotE) != set(wantExp[h]) {
			o.fail("c18:scan:expiry_queue", "batches expiring at height %d: the module's scan lists %v, the store holds %v", h, shortAll(gotE), shortAll(wantExp[h]))
		}
		if set(gotN) != set(wantNew[h]) {
			o.fail("c18:scan:new_batch_queue", "batches due at height %d: the module's scan lists %v, the store holds %v", h, shortAll(gotN), shortAll(wantNew[h]))
		}
		if len(wantExp[h])+len(wantNew[h]) > 0 && h%256 == 255 {
			o.hit("live_scan_queue_at_height_ending_in_ff")
		}
	}
	// 3. pending requests of a binding, and of a context's batch
	for _, bk := range sortedKeys(post.Binds) {
		b := post.Binds[bk]
		var got, want []string
		it := k.ActiveRequestsIterator(ctx, b.ServiceName, b.Provider)
		for ; it.Valid(); it.Next() {
			var v gogotypes.BytesValue
			if w.app.AppCodec().UnmarshalBinaryBare(it.Value(), &v) == nil {
				got = append(got, hx(v.Value))
			}
		}
		it.Close()
		for _, e := range post.ActiveB {
			if e.Service == b.ServiceName && e.Provider == b.Provider.String() {
				want = append(want, e.ReqID)
			}
		}
		if set(got) != set(want) {
			o.fail("c18:scan:pending_of_binding", "pending requests of %s: the module's scan lists %v, the store holds %v", bk, shortAll(got), shortAll(want))
		}
		if len(want) > 0 {
			o.hit("live_scan_pending_of_binding")
		}
	}
	for _, cid := range sortedKeys(post.Ctxs) {
		rc := post.Ctxs[cid]
		if rc.BatchCounter%256 == 255 {
			o.hit("live_scan_at_batch_counter_ending_in_ff")
		}
		var got, want []string
		it := k.ActiveRequestsIteratorByReqCtx(ctx, unhx(cid), rc.BatchCounter)
		for ; it.Valid(); it.Next() {
			got = append(got, hx(it.Key()[1:]))
		}
		it.Close()
		pre := cid + hx(be64(rc.BatchCounter))
		for _, id := range sortedKeys(post.ActiveID) {
			if strings.HasPrefix(id, pre) {
				want = append(want, id)
			}
		}
		if set(got) != set(want) {
			o.fail("c18:scan:pending_of_batch", "pending requests of context %s batch %d: the module's scan lists %v, the store holds %v", short(cid), rc.BatchCounter, shortAll(got), shortAll(want))
		}
	}
}

// callQueueIterator calls one of the keeper's queue iterators (ctx, height, callback) and collects the context
// ids it visits. The callback is built by reflection from the parameter type the iterator declares, so that a
// callback with or without a "stop" result - the keeper uses both conventions - is served alike and a change
// of that convention does not stop the harness from building.
func callQueueIterator(fn interface{}, ctx sdk.Context, h int64) []string {
	fv := reflect.ValueOf(fn)
	cbType := fv.Type().In(2)
	var got []string
	cb := reflect.MakeFunc(cbType, func(args []reflect.Value) []reflect.Value {
		got = append(got, hx(args[0].Bytes()))
		outs := make([]reflect.Value, cbType.NumOut())
		for i := range outs {
			outs[i] = reflect.Zero(cbType.Out(i))
		}
		return outs
	})
	fv.Call([]reflect.Value{reflect.ValueOf(ctx), reflect.ValueOf(h), cb})
	return got
}
