package harness

import (
	"encoding/binary"
	"encoding/json"
	"fmt"
	"strings"
)

// C18 (history part) — every issued request can be found again from its ID: the ID splits to
// (context, batch, issue height, index) and element `index` of that context's issue event of
// the issuing step equals the stored request. The lookup below re-implements what the
// documented client does (client/utils QueryRequestByTxQuery) over the captured events.

type c18 struct {
	oracleBase
	m *Model
}

func newC18(w *World, m *Model) *c18 { return &c18{oracleBase: newBase("C18", w), m: m} }

type evCoin struct {
	Denom  string `json:"denom"`
	Amount string `json:"amount"`
}

type evReq struct {
	Ctx     string   `json:"request_context_id"`
	Counter uint64   `json:"request_context_batch_counter"`
	Prov    string   `json:"provider"`
	Fee     []evCoin `json:"service_fee"`
	ReqH    int64    `json:"request_height"`
	ExpH    int64    `json:"expiration_height"`
}

func (o *c18) Step(r *StepRec) []Violation {
	if !r.OK {
		return nil
	}
	post := r.Post
	ids := NewReqs(r)
	if len(ids) == 0 {
		return nil
	}
	// issue events of this step, by context
	byCtx := map[string][][]evReq{}
	for _, ev := range r.Events {
		if ev.Type != "new_batch_request" {
			continue
		}
		var cid, reqs string
		for _, at := range ev.Attributes {
			switch string(at.Key) {
			case "request_context_id":
				cid = strings.ToLower(string(at.Value))
			case "requests":
				reqs = string(at.Value)
			}
		}
		var list []evReq
		if err := json.Unmarshal([]byte(reqs), &list); err != nil {
			o.fail("c18:event", "issue event of context %s carries undecodable requests: %v", short(cid), err)
			continue
		}
		byCtx[cid] = append(byCtx[cid], list)
	}
	for _, id := range ids {
		rq := post.Reqs[id]
		raw := unhx(id)
		if len(raw) != 58 {
			o.fail("c18:idlen", "request ID %s has %d bytes", id, len(raw))
			continue
		}
		cid := hx(raw[:40])
		counter := binary.BigEndian.Uint64(raw[40:48])
		height := int64(binary.BigEndian.Uint64(raw[48:56]))
		index := int(int16(binary.BigEndian.Uint16(raw[56:58])))
		if cid != hx(rq.RequestContextId) || counter != rq.RequestContextBatchCounter || height != rq.RequestHeight || height != r.Height {
			o.fail("c18:idfields", "request ID %s encodes (ctx %s, batch %d, height %d), the request says (ctx %s, batch %d, height %d), issued at %d",
				short(id), short(cid), counter, height, short(hx(rq.RequestContextId)), rq.RequestContextBatchCounter, rq.RequestHeight, r.Height)
			continue
		}
		lists := byCtx[cid]
		if len(lists) != 1 {
			o.fail("c18:event", "context %s has %d issue events in the step that issued request %s", short(cid), len(lists), short(id))
			continue
		}
		list := lists[0]
		if index < 0 || index >= len(list) {
			o.fail("c18:index", "request %s has index %d but its issue event lists %d requests", short(id), index, len(list))
			continue
		}
		e := list[index]
		fee := ""
		for _, c := range rq.ServiceFee {
			fee += c.Amount.String() + c.Denom
		}
		efee := ""
		for _, c := range e.Fee {
			efee += c.Amount + c.Denom
		}
		if strings.ToLower(e.Ctx) != cid || e.Counter != counter || e.Prov != rq.Provider.String() || efee != fee || e.ReqH != rq.RequestHeight || e.ExpH != rq.ExpirationHeight {
			o.fail("c18:lookup", "request %s: element %d of its issue event is (provider %s, fee %s, heights %d/%d), stored request is (provider %s, fee %s, heights %d/%d)",
				short(id), index, e.Prov, efee, e.ReqH, e.ExpH, rq.Provider.String(), fee, rq.RequestHeight, rq.ExpirationHeight)
		}
		o.hit("request_found_by_id")
		if index > 0 {
			o.hit("request_found_at_index>0")
		}
	}
	// and every listed element is a stored request with the ID its position implies
	for cid, lists := range byCtx {
		for _, list := range lists {
			for i, e := range list {
				want := hx(append(append(append(unhx(cid), be64(e.Counter)...), be64(uint64(r.Height))...), byte(i>>8), byte(i)))
				if _, ok := post.Reqs[want]; !ok {
					o.fail("c18:event_extra", "issue event of context %s lists element %d with no stored request under the ID its position implies", short(cid), i)
				}
			}
		}
	}
	if len(byCtx) >= 2 {
		o.hit("two_contexts_issue_in_one_block")
	}
	return o.take()
}

func (o *c18) NonTrivial() bool { return o.cls["request_found_at_index>0"] > 0 || o.cls["two_contexts_issue_in_one_block"] > 0 }

var _ = fmt.Sprint
