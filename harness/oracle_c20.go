package harness

import (
	"strings"
)

// C20 — block processing is deterministic and cannot crash the chain.
//
// Every history is executed in lockstep in several independent worlds (own keeper instance, own
// store branch); after every step the digests of (service store, balances, supply) must agree.
// A recovered panic in a handler (for a message that passed ValidateBasic) or in the
// end-blocker is a violation.

type c20 struct {
	oracleBase
	m *Model
}

func newC20(w *World, m *Model) *c20 { return &c20{oracleBase: newBase("C20", w), m: m} }

func panicSig(kind, p string) string {
	// signature: action kind + the innermost module frame
	fn := ""
	for _, part := range strings.Split(p, " | ") {
		if strings.Contains(part, "irismod/service") && strings.Contains(part, "(") {
			fn = part
			if i := strings.LastIndex(fn, "/"); i >= 0 {
				fn = fn[i+1:]
			}
			if i := strings.Index(fn, "("); i >= 0 {
				fn = fn[:i]
			}
			fn = strings.TrimSuffix(fn, "()")
			break
		}
	}
	return "c20:panic:" + kind + ":" + fn
}

func (o *c20) Step(r *StepRec) []Violation {
	a := r.Action
	if r.Panic != "" && a.Kind != KRestart { // a failing zero-height export is C19's business
		kind := a.Kind
		if a.Kind == KTx {
			kind = "tx"
		}
		o.fail(panicSig(kind, r.Panic), "%s panicked: %s", a.Kind, r.Panic)
	}
	if r.OK && a.Kind == KEndBlock {
		provs := map[string]bool{}
		for _, id := range NewReqs(r) {
			provs[hx(r.Post.Reqs[id].Provider)] = true
		}
		if len(provs) >= 2 {
			o.hit("end_block_issuing_to_two_providers")
		}
		if len(o.m.Expiring(r.Height)) >= 2 {
			o.hit("end_block_expiring_two_requests")
		}
	}
	if a.Tag == "boundary" && r.VBErr == "" {
		o.hit("boundary_message_past_validation")
		if r.OK {
			o.hit("boundary_message_accepted")
		}
		if len(a.Pricing) > 60 && strings.Contains(a.Pricing, "promotions_by_time") {
			o.hit("promotion_window_at_the_limits_of_the_calendar_past_validation")
		}
		if len(a.Pricing) > 60 && !strings.Contains(a.Pricing, "promotions_by_time") {
			o.hit("price_at_the_integer_limits_past_validation")
			if r.OK {
				o.hit("price_at_the_integer_limits_stored")
			}
		}
	}
	return o.take()
}

func (o *c20) NonTrivial() bool {
	return o.cls["end_block_issuing_to_two_providers"] > 0 || o.cls["boundary_message_past_validation"] > 0 || o.cls["end_block_expiring_two_requests"] > 0
}
