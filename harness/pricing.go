package harness

import (
	"encoding/json"
	"fmt"
	"math/big"
	"strings"
	"time"
)

// The harness's own reading of a binding's published pricing text. Nothing here uses the
// module's parser, its discount selectors or sdk.Dec: prices are exact rationals.

type RefPromoTime struct {
	StartNs, EndNs int64
	Discount       *big.Rat
}

type RefPromoVol struct {
	Volume   uint64
	Discount *big.Rat
}

type RefPricing struct {
	BaseBig *big.Int // base price, arbitrary size
	Base    int64    // base price (truncated), in units of Denom: the harness's tokens scale 1:1
	Denom   string   // the token the price is quoted in: "stake" or "point"
	ByTime []RefPromoTime
	ByVol  []RefPromoVol
}

type rawPromoTime struct {
	Start    string `json:"start_time"`
	End      string `json:"end_time"`
	Discount string `json:"discount"`
}
type rawPromoVol struct {
	Volume   uint64 `json:"volume"`
	Discount string `json:"discount"`
}
type rawPricing struct {
	Price  string         `json:"price"`
	ByTime []rawPromoTime `json:"promotions_by_time"`
	ByVol  []rawPromoVol  `json:"promotions_by_volume"`
}

// ParseRefPricing parses pricing text produced by the harness generators (price in "stake").
func ParseRefPricing(text string) (RefPricing, error) {
	var raw rawPricing
	var p RefPricing
	if err := json.Unmarshal([]byte(text), &raw); err != nil {
		return p, err
	}
	scale := int64(1)
	switch {
	case strings.HasSuffix(raw.Price, "kstake"):
		// quoted in the token's main unit: 1 kstake = 1000 stake
		p.Denom = "stake"
		scale = 1000
		raw.Price = strings.TrimSuffix(raw.Price, "kstake") + "stake"
	case strings.HasSuffix(raw.Price, "stake"):
		p.Denom = "stake"
	case strings.HasSuffix(raw.Price, "point"):
		p.Denom = "point"
	default:
		return p, fmt.Errorf("price not in a known token: %q", raw.Price)
	}
	num := strings.TrimSuffix(raw.Price, p.Denom)
	r, ok := new(big.Rat).SetString(num)
	if !ok || r.Sign() < 0 {
		return p, fmt.Errorf("bad price %q", raw.Price)
	}
	r.Mul(r, new(big.Rat).SetInt64(scale))
	fl := new(big.Int).Quo(r.Num(), r.Denom())
	p.BaseBig = fl
	if !fl.IsInt64() {
		if !allowBigPrices {
			return p, fmt.Errorf("price too large %q", raw.Price)
		}
		p.Base = 1<<63 - 1
	} else {
		p.Base = fl.Int64()
	}
	for _, t := range raw.ByTime {
		st, err := time.Parse(time.RFC3339Nano, t.Start)
		if err != nil {
			return p, err
		}
		en, err := time.Parse(time.RFC3339Nano, t.End)
		if err != nil {
			return p, err
		}
		d, ok := new(big.Rat).SetString(t.Discount)
		if !ok {
			return p, fmt.Errorf("bad discount %q", t.Discount)
		}
		p.ByTime = append(p.ByTime, RefPromoTime{StartNs: satNs(st), EndNs: satNs(en), Discount: d})
	}
	for _, v := range raw.ByVol {
		d, ok := new(big.Rat).SetString(v.Discount)
		if !ok {
			return p, fmt.Errorf("bad discount %q", v.Discount)
		}
		p.ByVol = append(p.ByVol, RefPromoVol{Volume: v.Volume, Discount: d})
	}
	return p, nil
}

// allowBigPrices: only the stateless price check (which uses FeeBig) handles prices beyond int64
var allowBigPrices = false

var ratOne = big.NewRat(1, 1)

// FeeBig is Fee for prices of any size.
func (p RefPricing) FeeBig(tNs int64, vol uint64) *big.Int {
	r := new(big.Rat).SetInt(p.BaseBig)
	r.Mul(r, p.DiscountAt(tNs))
	r.Mul(r, p.DiscountFor(vol))
	fl := new(big.Int).Quo(r.Num(), r.Denom())
	if fl.Cmp(big.NewInt(1)) < 0 {
		return big.NewInt(1)
	}
	return fl
}

// FeeAcceptable: the chain's decimal type carries 18 decimals, so a product with more decimals is
// rounded at the 18th before truncation. Stated tolerance of the price oracle: the result is the
// exact floor, or the next integer if the exact product lies within 10^-18 below it.
func (p RefPricing) FeeAcceptable(tNs int64, vol uint64, got *big.Int) bool {
	want := p.FeeBig(tNs, vol)
	if got.Cmp(want) == 0 {
		return true
	}
	r := new(big.Rat).SetInt(p.BaseBig)
	r.Mul(r, p.DiscountAt(tNs))
	r.Mul(r, p.DiscountFor(vol))
	next := new(big.Int).Add(new(big.Int).Quo(r.Num(), r.Denom()), big.NewInt(1))
	if got.Cmp(next) != 0 {
		return false
	}
	gap := new(big.Rat).Sub(new(big.Rat).SetInt(next), r)
	eps := new(big.Rat).SetFrac(big.NewInt(1), new(big.Int).Exp(big.NewInt(10), big.NewInt(18), nil))
	return gap.Cmp(eps) <= 0
}

// DiscountAt: the discount of the window containing t (start inclusive, end exclusive), else 1.
func (p RefPricing) DiscountAt(tNs int64) *big.Rat {
	for _, w := range p.ByTime {
		if tNs >= w.StartNs && tNs < w.EndNs {
			return w.Discount
		}
	}
	return ratOne
}

// DiscountFor: the discount of the highest threshold that the volume has reached, else 1.
// (thresholds are strictly increasing in generated pricings)
func (p RefPricing) DiscountFor(vol uint64) *big.Rat {
	d := ratOne
	for _, v := range p.ByVol {
		if vol >= v.Volume {
			d = v.Discount
		}
	}
	return d
}

// Fee is the published fee: max(1, floor(base * dT * dV)).
func (p RefPricing) Fee(tNs int64, vol uint64) int64 {
	r := new(big.Rat).SetInt64(p.Base)
	r.Mul(r, p.DiscountAt(tNs))
	r.Mul(r, p.DiscountFor(vol))
	fl := new(big.Int).Quo(r.Num(), r.Denom())
	f := fl.Int64()
	if f < 1 {
		f = 1
	}
	return f
}

// floorMul returns floor(a * frac) for a decimal fraction string.
func floorMul(a int64, frac string) int64 {
	r, ok := new(big.Rat).SetString(frac)
	if !ok {
		panic("harness: bad fraction " + frac)
	}
	r.Mul(r, new(big.Rat).SetInt64(a))
	return new(big.Int).Quo(r.Num(), r.Denom()).Int64()
}

func max64(a, b int64) int64 {
	if a > b {
		return a
	}
	return b
}

// MinDepositFor: max(global minimum, base * multiple)
//
// base is the price's amount of the base denomination (InBase): a price quoted in another token
// contributes nothing, only the global minimum remains.
func (c Config) MinDepositFor(base int64) int64 {
	m := base * c.Multiple
	if base > 0 && c.Multiple > 0 && (m/c.Multiple != base || m < 0) {
		// beyond int64: more than any account of the harness world can hold
		m = 1<<63 - 1
	}
	if c.MinDeposit != nil && *c.MinDeposit > m {
		m = *c.MinDeposit
	}
	return m
}

// ---------------------------------------------------------------------------------------------
// prices quoted in another token than the base denomination

// rate: the exchange rate the host's exchange-rate service answers with (nil: no such service)
func (c Config) rate() *big.Rat {
	switch c.ExchangeRate {
	case "", "unavailable", "malformed":
		return nil // no service, or one that cannot answer: nothing can be exchanged
	}
	r, ok := new(big.Rat).SetString(c.ExchangeRate)
	if !ok {
		panic("harness: bad exchange rate " + c.ExchangeRate)
	}
	return r
}

// InBase: the price's amount of the base denomination (what the minimum deposit is computed from)
func (c Config) InBase(rp RefPricing) int64 {
	if rp.Denom != c.baseDenom() {
		return 0
	}
	return rp.Base
}

// Priceable: the price can be expressed in the base denomination
func (c Config) Priceable(rp RefPricing) bool {
	return rp.Denom == c.baseDenom() || c.rate() != nil
}

// FeeOf is the fee in the base denomination: max(1, floor(base * dT * dV [* rate])).
func (c Config) FeeOf(rp RefPricing, tNs int64, vol uint64) int64 {
	if rp.Denom == c.baseDenom() {
		return rp.Fee(tNs, vol)
	}
	r := new(big.Rat).SetInt64(rp.Base)
	r.Mul(r, rp.DiscountAt(tNs))
	r.Mul(r, rp.DiscountFor(vol))
	r.Mul(r, c.rate())
	f := new(big.Int).Quo(r.Num(), r.Denom()).Int64()
	if f < 1 {
		f = 1
	}
	return f
}

// FeeOK: got is the fee of the pricing under the stated tolerance (see FeeAcceptable)
func (c Config) FeeOK(rp RefPricing, tNs int64, vol uint64, got int64) bool {
	if got == c.FeeOf(rp, tNs, vol) {
		return true
	}
	if rp.Denom == c.baseDenom() {
		return rp.FeeAcceptable(tNs, vol, big.NewInt(got))
	}
	// exchanged price: three 18-decimal multiplications, each rounded to the nearest; the last
	// one scales the earlier rounding errors by the rate. Stated tolerance: the neighbouring
	// integer is accepted when the exact product lies within (rate+1)*10^-18 of it.
	r := new(big.Rat).SetInt64(rp.Base)
	r.Mul(r, rp.DiscountAt(tNs))
	r.Mul(r, rp.DiscountFor(vol))
	r.Mul(r, c.rate())
	eps := new(big.Rat).Add(c.rate(), ratOne)
	eps.Mul(eps, new(big.Rat).SetFrac(big.NewInt(1), new(big.Int).Exp(big.NewInt(10), big.NewInt(18), nil)))
	g := new(big.Rat).SetInt64(got)
	lo, hi := new(big.Rat).Sub(r, eps), new(big.Rat).Add(r, eps)
	// got == floor(x) for some x in [lo, hi]  <=>  got <= hi and got+1 > lo
	return got >= 1 && g.Cmp(hi) <= 0 && new(big.Rat).Add(g, ratOne).Cmp(lo) > 0
}

// BaseInBase: the undiscounted price expressed in the base denomination (bound of every fee)
func (c Config) BaseInBase(rp RefPricing) int64 {
	if rp.Denom == c.baseDenom() {
		return rp.Base
	}
	r := new(big.Rat).SetInt64(rp.Base)
	r.Mul(r, c.rate())
	return new(big.Int).Quo(r.Num(), r.Denom()).Int64()
}

// balIn: an account's balance of the base denomination ("stake" is the only coin that exists)
func (c Config) balIn(s *Snapshot, addrHex string) int64 {
	if c.baseDenom() != "stake" {
		return 0
	}
	return s.Bal[addrHex]
}

// satNs: the instant in nanoseconds since the Unix epoch, saturating where that count leaves 64 bits (before
// 1678 / after 2261). Block times of the harness lie between 2020 and 2220, so a window reaching beyond either
// limit compares with every block time exactly as the true instant does.
func satNs(t time.Time) int64 {
	if t.Year() < 1678 {
		return -1 << 63
	}
	if t.Year() > 2261 {
		return 1<<63 - 1
	}
	return t.UnixNano()
}
