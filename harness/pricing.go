package harness

import (
	"encoding/json"
	"fmt"
	"math/big"
	"strings"
	"time"
)

// The harness's own reading of a binding's published pricing text. Nothing here uses the
// module's parser, its discount selectors or sdk.Dec: prices are exact rationals.

type RefPromoTime struct {
	StartNs, EndNs int64
	Discount       *big.Rat
}

type RefPromoVol struct {
	Volume   uint64
	Discount *big.Rat
}

type RefPricing struct {
	BaseBig *big.Int // base price, arbitrary size
	Base    int64    // base price in stake (truncated), as the chain's mock token scales 1:1
	ByTime []RefPromoTime
	ByVol  []RefPromoVol
}

type rawPromoTime struct {
	Start    string `json:"start_time"`
	End      string `json:"end_time"`
	Discount string `json:"discount"`
}
type rawPromoVol struct {
	Volume   uint64 `json:"volume"`
	Discount string `json:"discount"`
}
type rawPricing struct {
	Price  string         `json:"price"`
	ByTime []rawPromoTime `json:"promotions_by_time"`
	ByVol  []rawPromoVol  `json:"promotions_by_volume"`
}

// ParseRefPricing parses pricing text produced by the harness generators (price in "stake").
func ParseRefPricing(text string) (RefPricing, error) {
	var raw rawPricing
	var p RefPricing
	if err := json.Unmarshal([]byte(text), &raw); err != nil {
		return p, err
	}
	if !strings.HasSuffix(raw.Price, "stake") {
		return p, fmt.Errorf("price not in stake: %q", raw.Price)
	}
	num := strings.TrimSuffix(raw.Price, "stake")
	r, ok := new(big.Rat).SetString(num)
	if !ok || r.Sign() < 0 {
		return p, fmt.Errorf("bad price %q", raw.Price)
	}
	fl := new(big.Int).Quo(r.Num(), r.Denom())
	p.BaseBig = fl
	if !fl.IsInt64() {
		if !allowBigPrices {
			return p, fmt.Errorf("price too large %q", raw.Price)
		}
		p.Base = 1<<63 - 1
	} else {
		p.Base = fl.Int64()
	}
	for _, t := range raw.ByTime {
		st, err := time.Parse(time.RFC3339Nano, t.Start)
		if err != nil {
			return p, err
		}
		en, err := time.Parse(time.RFC3339Nano, t.End)
		if err != nil {
			return p, err
		}
		d, ok := new(big.Rat).SetString(t.Discount)
		if !ok {
			return p, fmt.Errorf("bad discount %q", t.Discount)
		}
		p.ByTime = append(p.ByTime, RefPromoTime{StartNs: st.UnixNano(), EndNs: en.UnixNano(), Discount: d})
	}
	for _, v := range raw.ByVol {
		d, ok := new(big.Rat).SetString(v.Discount)
		if !ok {
			return p, fmt.Errorf("bad discount %q", v.Discount)
		}
		p.ByVol = append(p.ByVol, RefPromoVol{Volume: v.Volume, Discount: d})
	}
	return p, nil
}

// allowBigPrices: only the stateless price check (which uses FeeBig) handles prices beyond int64
var allowBigPrices = false

var ratOne = big.NewRat(1, 1)

// FeeBig is Fee for prices of any size.
func (p RefPricing) FeeBig(tNs int64, vol uint64) *big.Int {
	r := new(big.Rat).SetInt(p.BaseBig)
	r.Mul(r, p.DiscountAt(tNs))
	r.Mul(r, p.DiscountFor(vol))
	fl := new(big.Int).Quo(r.Num(), r.Denom())
	if fl.Cmp(big.NewInt(1)) < 0 {
		return big.NewInt(1)
	}
	return fl
}

// FeeAcceptable: the chain's decimal type carries 18 decimals, so a product with more decimals is
// rounded at the 18th before truncation. Stated tolerance of the price oracle: the result is the
// exact floor, or the next integer if the exact product lies within 10^-18 below it.
func (p RefPricing) FeeAcceptable(tNs int64, vol uint64, got *big.Int) bool {
	want := p.FeeBig(tNs, vol)
	if got.Cmp(want) == 0 {
		return true
	}
	r := new(big.Rat).SetInt(p.BaseBig)
	r.Mul(r, p.DiscountAt(tNs))
	r.Mul(r, p.DiscountFor(vol))
	next := new(big.Int).Add(new(big.Int).Quo(r.Num(), r.Denom()), big.NewInt(1))
	if got.Cmp(next) != 0 {
		return false
	}
	gap := new(big.Rat).Sub(new(big.Rat).SetInt(next), r)
	eps := new(big.Rat).SetFrac(big.NewInt(1), new(big.Int).Exp(big.NewInt(10), big.NewInt(18), nil))
	return gap.Cmp(eps) <= 0
}

// DiscountAt: the discount of the window containing t (start inclusive, end exclusive), else 1.
func (p RefPricing) DiscountAt(tNs int64) *big.Rat {
	for _, w := range p.ByTime {
		if tNs >= w.StartNs && tNs < w.EndNs {
			return w.Discount
		}
	}
	return ratOne
}

// DiscountFor: the discount of the highest threshold that the volume has reached, else 1.
// (thresholds are strictly increasing in generated pricings)
func (p RefPricing) DiscountFor(vol uint64) *big.Rat {
	d := ratOne
	for _, v := range p.ByVol {
		if vol >= v.Volume {
			d = v.Discount
		}
	}
	return d
}

// Fee is the published fee: max(1, floor(base * dT * dV)).
func (p RefPricing) Fee(tNs int64, vol uint64) int64 {
	r := new(big.Rat).SetInt64(p.Base)
	r.Mul(r, p.DiscountAt(tNs))
	r.Mul(r, p.DiscountFor(vol))
	fl := new(big.Int).Quo(r.Num(), r.Denom())
	f := fl.Int64()
	if f < 1 {
		f = 1
	}
	return f
}

// floorMul returns floor(a * frac) for a decimal fraction string.
func floorMul(a int64, frac string) int64 {
	r, ok := new(big.Rat).SetString(frac)
	if !ok {
		panic("harness: bad fraction " + frac)
	}
	r.Mul(r, new(big.Rat).SetInt64(a))
	return new(big.Int).Quo(r.Num(), r.Denom()).Int64()
}

func max64(a, b int64) int64 {
	if a > b {
		return a
	}
	return b
}

// MinDepositFor: max(global minimum, base * multiple)
func (c Config) MinDepositFor(base int64) int64 {
	if c.baseDenom() != "stake" {
		// prices are in "stake": their amount of the base denomination is zero, only the global minimum remains
		base = 0
	}
	m := base * c.Multiple
	if c.MinDeposit != nil && *c.MinDeposit > m {
		m = *c.MinDeposit
	}
	return m
}
