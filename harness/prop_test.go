package harness

import (
	"fmt"
	"os"
	"strconv"
	"testing"

	"pgregory.net/rapid"
)

// Entry points used by /verif/check. Everything is parameterised through the environment:
//   VERIF_PROP   property id (C01 ...)
//   VERIF_TIER   quick | thorough
//   VERIF_STATS  path of the per-shard statistics file to write
//   VERIF_REPLAY_DIR  where replay files of new violations go
//   VERIF_REPLAY_FILE (TestReplay) the replay file to re-execute
// and rapid's own flags -rapid.checks / -rapid.seed.

func seedFlag() uint64 {
	for _, a := range os.Args {
		const p = "-rapid.seed="
		if len(a) > len(p) && a[:len(p)] == p {
			v, _ := strconv.ParseUint(a[len(p):], 10, 64)
			return v
		}
	}
	return 0
}

func TestHistory(t *testing.T) {
	prop := os.Getenv("VERIF_PROP")
	if prop == "" {
		t.Skip("VERIF_PROP not set")
	}
	env := &runEnv{prop: prop, tier: envOr("VERIF_TIER", "quick"), seed: seedFlag(), stats: NewStats(prop),
		known: LoadKnown(), replayDir: envOr("VERIF_REPLAY_DIR", "../replays")}
	defer env.stats.Write(os.Getenv("VERIF_STATS"))
	rapid.Check(t, env.historyProperty)
}

func TestReplay(t *testing.T) {
	path := os.Getenv("VERIF_REPLAY_FILE")
	if path == "" {
		t.Skip("VERIF_REPLAY_FILE not set")
	}
	r, err := ReadReplay(path)
	if err != nil {
		t.Fatalf("cannot read replay: %v", err)
	}
	if p := os.Getenv("VERIF_PROP"); p != "" {
		r.Prop = p
	}
	v := replayAny(r)
	if v != nil {
		known := LoadKnown()
		if kf := known.Match(*v); kf != nil {
			fmt.Printf("KNOWN-FINDING: property=%s %s\n", v.Prop, kf.What)
			return
		}
		fmt.Printf("REPLAY-VIOLATION %s\n", v.String())
		t.Fatalf("replay reproduces: %s", v.String())
	}
	fmt.Println("REPLAY-OK")
}

func replayAny(r Replay) *Violation {
	if v, ok := replayStateless(r); ok {
		return v
	}
	return ReplayHistory(r)
}

// TestStateless runs one registered stateless property (VERIF_STATELESS = its name).
func TestStateless(t *testing.T) {
	name := os.Getenv("VERIF_STATELESS")
	sp := statelessProps[name]
	if sp == nil {
		t.Skip("VERIF_STATELESS not set")
	}
	env := &runEnv{prop: sp.Prop, tier: envOr("VERIF_TIER", "quick"), seed: seedFlag(), stats: NewStats(sp.Prop),
		known: LoadKnown(), replayDir: envOr("VERIF_REPLAY_DIR", "../replays")}
	defer env.stats.Write(os.Getenv("VERIF_STATS"))
	rapid.Check(t, env.statelessProperty(sp))
}

// TestMinimize shrinks a replay file further by delta debugging over its action list (rapid's
// own shrinker works on the random bit stream and often leaves removable steps behind). A
// candidate is kept only if it still violates the same property with the same signature.
func TestMinimize(t *testing.T) {
	path := os.Getenv("VERIF_REPLAY_FILE")
	if path == "" {
		t.Skip("VERIF_REPLAY_FILE not set")
	}
	r, err := ReadReplay(path)
	if err != nil {
		t.Fatalf("cannot read replay: %v", err)
	}
	orig := replayAny(r)
	if orig == nil {
		fmt.Println("MINIMIZE: replay does not reproduce; left unchanged")
		return
	}
	same := func(as []Action) bool {
		c := r
		c.Actions = as
		v := replayAny(c)
		return v != nil && v.Prop == orig.Prop && v.Sig == orig.Sig
	}
	acts := append([]Action{}, r.Actions...)
	// flatten multi-message transactions where possible
	for i := range acts {
		if acts[i].Kind == KTx {
			for _, m := range acts[i].Msgs {
				cand := append(append(append([]Action{}, acts[:i]...), m), acts[i+1:]...)
				if same(cand) {
					acts = cand
					break
				}
			}
		}
	}
	for chunk := len(acts) / 2; chunk >= 1; {
		removed := false
		for i := 0; i+chunk <= len(acts); {
			cand := append(append([]Action{}, acts[:i]...), acts[i+chunk:]...)
			if len(cand) > 0 && same(cand) {
				acts = cand
				removed = true
			} else {
				i += chunk
			}
		}
		if !removed || chunk > len(acts) {
			chunk /= 2
		}
		if chunk > len(acts) {
			chunk = len(acts)
		}
	}
	r.Actions = acts
	c := r
	r.Violation = replayAny(c)
	WriteReplay(path, r)
	fmt.Printf("MINIMIZE: %d actions\n", len(acts))
}

// TestDigest executes a saved history and prints the state digest after every action (used to
// compare executions across operating-system processes for C20).
func TestDigest(t *testing.T) {
	path := os.Getenv("VERIF_REPLAY_FILE")
	if path == "" {
		t.Skip("VERIF_REPLAY_FILE not set")
	}
	r, err := ReadReplay(path)
	if err != nil {
		t.Fatalf("cannot read replay: %v", err)
	}
	w := NewWorld(r.Config)
	for _, a := range r.Actions {
		rec := w.Step(a)
		fmt.Printf("DIGEST %s\n", rec.Post.Digest())
	}
}
