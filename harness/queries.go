package harness

import (
	"bytes"
	"encoding/json"
	"fmt"
	"sort"
	"strings"

	abci "github.com/tendermint/tendermint/abci/types"

	"github.com/cosmos/cosmos-sdk/codec"
	sdk "github.com/cosmos/cosmos-sdk/types"

	"github.com/irismod/service/keeper"
	"github.com/irismod/service/types"
	"pgregory.net/rapid"
)

// C17 — queries return exactly the stored state. A generated query is answered three ways:
// ground truth (from the raw scan), the gRPC query server, the legacy querier.

type Query struct {
	Kind    string `json:"kind"`
	Service string `json:"service,omitempty"`
	Addr    string `json:"addr,omitempty"` // hex
	ID      string `json:"id,omitempty"`   // hex
	Batch   uint64 `json:"batch,omitempty"`
	Schema  string `json:"schema,omitempty"`
}

var QueryKinds = []string{"definition", "binding", "bindings", "withdraw_address", "context", "request", "requests",
	"requests_by_ctx", "response", "responses", "fees", "schema", "parameters"}

type queryChecker struct {
	w   *World
	s   *Snapshot
	cdc codec.Marshaler
	leg sdk.Querier
	vs  []Violation
	cls map[string]int
}

func newQueryChecker(w *World) *queryChecker {
	return &queryChecker{w: w, s: w.Snapshot(), cdc: w.app.AppCodec(), leg: keeper.NewQuerier(w.k, w.app.LegacyAmino()), cls: map[string]int{}}
}

func (q *queryChecker) fail(kind string, f string, a ...interface{}) {
	q.vs = append(q.vs, Violation{Prop: "C17", Msg: fmt.Sprintf(f, a...), Sig: "c17:" + kind})
}

type protoMsg interface {
	codec.ProtoMarshaler
}

func (q *queryChecker) bz(m codec.ProtoMarshaler) string {
	return string(q.cdc.MustMarshalBinaryBare(m))
}

func sortedStrs(xs []string) []string {
	out := append([]string{}, xs...)
	sort.Strings(out)
	return out
}

// reconstruct a full request from the compact record and its context (harness's own version)
func (q *queryChecker) fullRequest(id string) *types.Request {
	cr, ok := q.s.Reqs[id]
	if !ok {
		return nil
	}
	rc, ok := q.s.Ctxs[hx(cr.RequestContextId)]
	if !ok {
		return nil
	}
	return &types.Request{Id: unhx(id), ServiceName: rc.ServiceName, Provider: cr.Provider, Consumer: rc.Consumer, Input: rc.Input,
		ServiceFee: cr.ServiceFee, SuperMode: rc.SuperMode, RequestHeight: cr.RequestHeight, ExpirationHeight: cr.ExpirationHeight,
		RequestContextId: cr.RequestContextId, RequestContextBatchCounter: cr.RequestContextBatchCounter}
}

func (q *queryChecker) legacy(path string, params interface{}) ([]byte, error) {
	var data []byte
	if params != nil {
		data = q.w.app.LegacyAmino().MustMarshalJSON(params)
	}
	var res []byte
	var err error
	func() {
		defer func() {
			if r := recover(); r != nil {
				err = fmt.Errorf("PANIC: %v", r)
			}
		}()
		res, err = q.leg(q.w.ctx, []string{path}, abci.RequestQuery{Data: data})
	}()
	return res, err
}

func (q *queryChecker) legDecode(bz []byte, ptr interface{}) error {
	return q.w.app.LegacyAmino().UnmarshalJSON(bz, ptr)
}

// The legacy interface carries addresses as bech32 text, which the SDK's default configuration
// decodes only for 20-byte values: queries and results involving other lengths cannot be
// expressed through it and are compared on the gRPC side only (counted).
func addr20(as ...sdk.AccAddress) bool {
	for _, a := range as {
		if len(a) != 0 && len(a) != 20 {
			return false
		}
	}
	return true
}

func (q *queryChecker) expressible(ok bool) bool {
	if !ok {
		q.cls["legacy_inexpressible_non20_byte_address"]++
	}
	return ok
}

// Check answers one query three ways and compares.
func (q *queryChecker) Check(qu Query) {
	k, s, ctx := q.w.k, q.s, sdk.WrapSDKContext(q.w.ctx)
	q.cls["query:"+qu.Kind]++
	defer func() {
		if r := recover(); r != nil {
			q.fail(qu.Kind, "query %+v panicked: %v", qu, r)
		}
	}()
	cmp1 := func(what string, got, want codec.ProtoMarshaler, gotNil, wantNil bool) {
		if wantNil != gotNil {
			q.fail(qu.Kind, "%s %+v: returned present=%v, stored present=%v", what, qu, !gotNil, !wantNil)
			return
		}
		if !wantNil && q.bz(got) != q.bz(want) {
			q.fail(qu.Kind, "%s %+v: returned %v, stored %v", what, qu, got, want)
		}
	}
	cmpSet := func(what string, got, want []string) {
		g, w := sortedStrs(got), sortedStrs(want)
		if strings.Join(g, "\x00") != strings.Join(w, "\x00") {
			q.fail(qu.Kind, "%s %+v: returned %d records, stored %d (sets differ)", what, qu, len(g), len(w))
		}
	}
	switch qu.Kind {
	case "definition":
		want, has := s.Defs[qu.Service]
		res, err := k.Definition(ctx, &types.QueryDefinitionRequest{ServiceName: qu.Service})
		var got types.ServiceDefinition
		if err == nil && res.ServiceDefinition != nil {
			got = *res.ServiceDefinition
		}
		cmp1("gRPC definition", &got, &want, err != nil, !has)
		lbz, lerr := q.legacy(types.QueryDefinition, types.QueryDefinitionParams{ServiceName: qu.Service})
		var lg types.ServiceDefinition
		if lerr == nil {
			lerr = q.legDecode(lbz, &lg)
		}
		cmp1("legacy definition", &lg, &want, lerr != nil, !has)
		if has {
			q.cls["hit:definition"]++
		}
	case "binding":
		want, has := s.Binds[bkey(qu.Service, qu.Addr)]
		res, err := k.Binding(ctx, &types.QueryBindingRequest{ServiceName: qu.Service, Provider: addr(qu.Addr)})
		var got types.ServiceBinding
		if err == nil && res.ServiceBinding != nil {
			got = *res.ServiceBinding
		}
		cmp1("gRPC binding", &got, &want, err != nil, !has)
		if q.expressible(addr20(addr(qu.Addr), want.Provider, want.Owner)) {
			lbz, lerr := q.legacy(types.QueryBinding, types.QueryBindingParams{ServiceName: qu.Service, Provider: addr(qu.Addr)})
			var lg types.ServiceBinding
			if lerr == nil {
				lerr = q.legDecode(lbz, &lg)
			}
			cmp1("legacy binding", &lg, &want, lerr != nil, !has)
		}
		if has {
			q.cls["hit:binding"]++
		}
	case "bindings":
		var want []string
		expr := true
		for _, bk := range sortedKeys(s.Binds) {
			b := s.Binds[bk]
			if b.ServiceName == qu.Service && (qu.Addr == "" || hx(b.Owner) == qu.Addr) {
				want = append(want, q.bz(&b))
				expr = expr && addr20(b.Provider, b.Owner)
			}
		}
		if qu.Addr != "" && len(qu.Addr) != 40 {
			expr = false // the legacy transport carries the owner as bech32 text: 20 bytes only
			q.cls["bindings_of_a_cut_owner"]++
		}
		res, err := k.Bindings(ctx, &types.QueryBindingsRequest{ServiceName: qu.Service, Owner: addr(qu.Addr)})
		if err != nil {
			q.fail(qu.Kind, "gRPC bindings %+v: %v", qu, err)
			return
		}
		var got []string
		for _, b := range res.ServiceBindings {
			got = append(got, q.bz(b))
		}
		cmpSet("gRPC bindings", got, want)
		if !q.expressible(expr) {
			return
		}
		lbz, lerr := q.legacy(types.QueryBindings, types.QueryBindingsParams{ServiceName: qu.Service, Owner: addr(qu.Addr)})
		var lg []types.ServiceBinding
		if lerr == nil {
			lerr = q.legDecode(lbz, &lg)
		}
		if lerr != nil {
			q.fail(qu.Kind, "legacy bindings %+v: %v", qu, lerr)
			return
		}
		var lgot []string
		for i := range lg {
			lgot = append(lgot, q.bz(&lg[i]))
		}
		cmpSet("legacy bindings", lgot, want)
		if len(want) > 0 {
			q.cls["hit:bindings"]++
		}
	case "withdraw_address":
		want := qu.Addr
		if wa, ok := s.Withdraw[qu.Addr]; ok {
			want = wa
			q.cls["hit:withdraw_address"]++
		}
		res, err := k.WithdrawAddress(ctx, &types.QueryWithdrawAddressRequest{Owner: addr(qu.Addr)})
		if err != nil || hx(res.WithdrawAddress) != want {
			q.fail(qu.Kind, "gRPC withdraw address of %s: %x (err %v), stored %s", qu.Addr, res.GetWithdrawAddress(), err, want)
		}
		lbz, lerr := q.legacy(types.QueryWithdrawAddress, types.QueryWithdrawAddressParams{Owner: addr(qu.Addr)})
		var lg sdk.AccAddress
		if lerr == nil && len(want) == 40 { // amino JSON carries addresses as bech32, which only 20-byte values survive
			lerr = q.legDecode(lbz, &lg)
			if lerr != nil || hx(lg) != want {
				q.fail(qu.Kind, "legacy withdraw address of %s: %x (err %v), stored %s", qu.Addr, []byte(lg), lerr, want)
			}
		}
	case "context":
		want, has := s.Ctxs[qu.ID]
		res, err := k.RequestContext(ctx, &types.QueryRequestContextRequest{RequestContextId: unhx(qu.ID)})
		if err != nil {
			q.fail(qu.Kind, "gRPC context %s: %v", qu.ID, err)
			return
		}
		got := *res.RequestContext
		cmp1("gRPC context", &got, &want, got.Empty(), !has)
		if !q.expressible(addr20(append([]sdk.AccAddress{want.Consumer}, want.Providers...)...)) {
			return
		}
		lbz, lerr := q.legacy(types.QueryRequestContext, types.QueryRequestContextParams{RequestContextID: unhx(qu.ID)})
		var lg types.RequestContext
		if lerr == nil {
			lerr = q.legDecode(lbz, &lg)
		}
		if lerr != nil {
			q.fail(qu.Kind, "legacy context %s: %v", qu.ID, lerr)
			return
		}
		cmp1("legacy context", &lg, &want, lg.Empty(), !has)
		if has {
			q.cls["hit:context"]++
		}
	case "request":
		wantP := q.fullRequest(qu.ID)
		var want types.Request
		if wantP != nil {
			want = *wantP
			q.cls["hit:request"]++
		}
		res, err := k.Request(ctx, &types.QueryRequestRequest{RequestId: unhx(qu.ID)})
		if len(unhx(qu.ID)) != types.RequestIDLen {
			// not an identifier: both interfaces must answer "nothing" (an error or an empty record)
			q.cls["malformed_request_id"]++
			_, lerr := q.legacy(types.QueryRequest, types.QueryRequestParams{RequestID: unhx(qu.ID)})
			if err == nil && !res.Request.Empty() {
				q.fail(qu.Kind, "gRPC request for the malformed id %s returned a record", qu.ID)
			}
			if (err == nil) != (lerr == nil) {
				q.fail(qu.Kind, "malformed request id %s: gRPC err=%v, legacy err=%v", qu.ID, err, lerr)
			}
			return
		}
		if err != nil {
			q.fail(qu.Kind, "gRPC request %s: %v", qu.ID, err)
			return
		}
		got := *res.Request
		cmp1("gRPC request", &got, &want, got.Empty(), wantP == nil)
		if !q.expressible(addr20(want.Provider, want.Consumer)) {
			return
		}
		lbz, lerr := q.legacy(types.QueryRequest, types.QueryRequestParams{RequestID: unhx(qu.ID)})
		var lg types.Request
		if lerr == nil {
			lerr = q.legDecode(lbz, &lg)
		}
		if lerr != nil {
			q.fail(qu.Kind, "legacy request %s: %v", qu.ID, lerr)
			return
		}
		cmp1("legacy request", &lg, &want, lg.Empty(), wantP == nil)
	case "requests":
		var want []string
		pb := addr(qu.Addr).String()
		for _, e := range s.ActiveB {
			if e.Service == qu.Service && e.Provider == pb {
				if fr := q.fullRequest(e.ReqID); fr != nil {
					want = append(want, q.bz(fr))
				}
			}
		}
		res, err := k.Requests(ctx, &types.QueryRequestsRequest{ServiceName: qu.Service, Provider: addr(qu.Addr)})
		if err != nil {
			q.fail(qu.Kind, "gRPC requests %+v: %v", qu, err)
			return
		}
		var got []string
		for _, r := range res.Requests {
			got = append(got, q.bz(r))
		}
		cmpSet("gRPC pending requests", got, want)
		if !q.expressible(addr20(addr(qu.Addr))) {
			return
		}
		lbz, lerr := q.legacy(types.QueryRequests, types.QueryRequestsParams{ServiceName: qu.Service, Provider: addr(qu.Addr)})
		var lg []types.Request
		if lerr == nil {
			lerr = q.legDecode(lbz, &lg)
		}
		if lerr != nil {
			q.fail(qu.Kind, "legacy requests %+v: %v", qu, lerr)
			return
		}
		var lgot []string
		for i := range lg {
			lgot = append(lgot, q.bz(&lg[i]))
		}
		cmpSet("legacy pending requests", lgot, want)
		if len(want) > 0 {
			q.cls["hit:requests"]++
		}
	case "requests_by_ctx", "responses":
		prefix := append(unhx(qu.ID), be64(qu.Batch)...)
		var want []string
		expr := true
		if len(unhx(qu.ID)) != types.ContextIDLen {
			// not the identifier of any context (e.g. only the transaction hash): there are no "requests of
			// batch b of that context"; both interfaces must answer nothing (an empty list or an error)
			q.cls["malformed_context_id"]++
			var n, ln int
			var err, lerr error
			if qu.Kind == "requests_by_ctx" {
				var res *types.QueryRequestsByReqCtxResponse
				if res, err = k.RequestsByReqCtx(ctx, &types.QueryRequestsByReqCtxRequest{RequestContextId: unhx(qu.ID), BatchCounter: qu.Batch}); err == nil {
					n = len(res.Requests)
				}
				var lbz []byte
				if lbz, lerr = q.legacy(types.QueryRequestsByReqCtx, types.QueryRequestsByReqCtxParams{RequestContextID: unhx(qu.ID), BatchCounter: qu.Batch}); lerr == nil {
					ln = strings.Count(string(lbz), `"id"`)
				}
			} else {
				var res *types.QueryResponsesResponse
				if res, err = k.Responses(ctx, &types.QueryResponsesRequest{RequestContextId: unhx(qu.ID), BatchCounter: qu.Batch}); err == nil {
					n = len(res.Responses)
				}
				var lbz []byte
				if lbz, lerr = q.legacy(types.QueryResponses, types.QueryResponsesParams{RequestContextID: unhx(qu.ID), BatchCounter: qu.Batch}); lerr == nil {
					ln = strings.Count(string(lbz), `"provider"`)
				}
			}
			if n > 0 {
				q.fail(qu.Kind, "gRPC %s for %d-byte id %s (not a context identifier), batch %d returned %d records", qu.Kind, len(unhx(qu.ID)), qu.ID, qu.Batch, n)
			}
			if ln > 0 {
				q.fail(qu.Kind, "legacy %s for %d-byte id %s (not a context identifier), batch %d returned %d records", qu.Kind, len(unhx(qu.ID)), qu.ID, qu.Batch, ln)
			}
			return
		}
		if qu.Kind == "requests_by_ctx" {
			for _, id := range sortedKeys(s.Reqs) {
				if bytes.HasPrefix(unhx(id), prefix) {
					if fr := q.fullRequest(id); fr != nil {
						want = append(want, q.bz(fr))
						expr = expr && addr20(fr.Provider, fr.Consumer)
					}
				}
			}
		} else {
			for _, id := range sortedKeys(s.Resps) {
				if bytes.HasPrefix(unhx(id), prefix) {
					r := s.Resps[id]
					want = append(want, q.bz(&r))
					expr = expr && addr20(r.Provider, r.Consumer)
				}
			}
		}
		expr = q.expressible(expr)
		var got, lgot []string
		if qu.Kind == "requests_by_ctx" {
			res, err := k.RequestsByReqCtx(ctx, &types.QueryRequestsByReqCtxRequest{RequestContextId: unhx(qu.ID), BatchCounter: qu.Batch})
			if err != nil {
				q.fail(qu.Kind, "gRPC %+v: %v", qu, err)
				return
			}
			for _, r := range res.Requests {
				got = append(got, q.bz(r))
			}
			lbz, lerr := q.legacy(types.QueryRequestsByReqCtx, types.QueryRequestsByReqCtxParams{RequestContextID: unhx(qu.ID), BatchCounter: qu.Batch})
			var lg []types.Request
			if lerr == nil && expr {
				lerr = q.legDecode(lbz, &lg)
			}
			if lerr != nil {
				q.fail(qu.Kind, "legacy %+v: %v", qu, lerr)
				return
			}
			for i := range lg {
				lgot = append(lgot, q.bz(&lg[i]))
			}
		} else {
			res, err := k.Responses(ctx, &types.QueryResponsesRequest{RequestContextId: unhx(qu.ID), BatchCounter: qu.Batch})
			if err != nil {
				q.fail(qu.Kind, "gRPC %+v: %v", qu, err)
				return
			}
			for _, r := range res.Responses {
				got = append(got, q.bz(r))
			}
			lbz, lerr := q.legacy(types.QueryResponses, types.QueryResponsesParams{RequestContextID: unhx(qu.ID), BatchCounter: qu.Batch})
			var lg []types.Response
			if lerr == nil && expr {
				lerr = q.legDecode(lbz, &lg)
			}
			if lerr != nil {
				q.fail(qu.Kind, "legacy %+v: %v", qu, lerr)
				return
			}
			for i := range lg {
				lgot = append(lgot, q.bz(&lg[i]))
			}
		}
		cmpSet("gRPC "+qu.Kind, got, want)
		if expr {
			cmpSet("legacy "+qu.Kind, lgot, want)
		}
		if len(want) > 0 {
			q.cls["hit:"+qu.Kind]++
		}
	case "response":
		want, has := s.Resps[qu.ID]
		res, err := k.Response(ctx, &types.QueryResponseRequest{RequestId: unhx(qu.ID)})
		if len(unhx(qu.ID)) != types.RequestIDLen {
			q.cls["malformed_request_id"]++
			_, lerr := q.legacy(types.QueryResponse, types.QueryResponseParams{RequestID: unhx(qu.ID)})
			if err == nil && !res.Response.Empty() {
				q.fail(qu.Kind, "gRPC response for the malformed id %s returned a record", qu.ID)
			}
			if (err == nil) != (lerr == nil) {
				q.fail(qu.Kind, "malformed request id %s: gRPC err=%v, legacy err=%v", qu.ID, err, lerr)
			}
			return
		}
		if err != nil {
			q.fail(qu.Kind, "gRPC response %s: %v", qu.ID, err)
			return
		}
		got := *res.Response
		cmp1("gRPC response", &got, &want, got.Empty(), !has)
		if !q.expressible(addr20(want.Provider, want.Consumer)) {
			return
		}
		lbz, lerr := q.legacy(types.QueryResponse, types.QueryResponseParams{RequestID: unhx(qu.ID)})
		var lg types.Response
		if lerr == nil {
			lerr = q.legDecode(lbz, &lg)
		}
		if lerr != nil {
			q.fail(qu.Kind, "legacy response %s: %v", qu.ID, lerr)
			return
		}
		cmp1("legacy response", &lg, &want, lg.Empty(), !has)
		if has {
			q.cls["hit:response"]++
		}
	case "fees":
		// the stored records of exactly this provider, coin by coin
		want := sdk.NewCoins()
		for _, e := range s.Earned {
			if e.Provider == qu.Addr && e.Amount > 0 {
				want = want.Add(sdk.NewCoin(e.Denom, sdk.NewInt(e.Amount)))
			}
		}
		res, err := k.EarnedFees(ctx, &types.QueryEarnedFeesRequest{Provider: addr(qu.Addr)})
		if err != nil {
			if !want.IsZero() {
				q.fail(qu.Kind, "gRPC earned fees of %s: %v, stored %s", qu.Addr, err, want)
			}
		} else if !sameCoins(res.Fees, want) {
			q.fail(qu.Kind, "gRPC earned fees of %s: %s, stored %s", qu.Addr, res.Fees, want)
		}
		if len(want) > 1 {
			q.cls["hit:fees_in_two_coins"]++
		}
		if !q.expressible(addr20(addr(qu.Addr))) {
			return
		}
		lbz, lerr := q.legacy(types.QueryEarnedFees, types.QueryEarnedFeesParams{Provider: addr(qu.Addr)})
		var lg sdk.Coins
		if lerr == nil {
			lerr = q.legDecode(lbz, &lg)
		}
		if lerr != nil {
			if !want.IsZero() {
				q.fail(qu.Kind, "legacy earned fees of %s: %v, stored %s", qu.Addr, lerr, want)
			}
		} else if !sameCoins(lg, want) {
			q.fail(qu.Kind, "legacy earned fees of %s: %s, stored %s", qu.Addr, lg, want)
		}
		if !want.IsZero() {
			q.cls["hit:fees"]++
		}
	case "schema":
		want, has := map[string]string{"pricing": types.PricingSchema, "result": types.ResultSchema}[strings.ToLower(qu.Schema)]
		res, err := k.Schema(ctx, &types.QuerySchemaRequest{SchemaName: qu.Schema})
		if (err == nil) != has || (has && res.Schema != want) {
			q.fail(qu.Kind, "gRPC schema %q: err=%v", qu.Schema, err)
		}
		lbz, lerr := q.legacy(types.QuerySchema, types.QuerySchemaParams{SchemaName: qu.Schema})
		var lg string
		if lerr == nil {
			lerr = json.Unmarshal(lbz, &lg)
		}
		if (lerr == nil) != has || (has && lg != want) {
			q.fail(qu.Kind, "legacy schema %q: err=%v", qu.Schema, lerr)
		}
	case "parameters":
		res, err := k.Params(ctx, &types.QueryParamsRequest{})
		if err != nil {
			q.fail(qu.Kind, "gRPC params: %v", err)
			return
		}
		c := q.w.cfg
		p := res.Params
		minDep := int64(-1)
		if c.MinDeposit != nil {
			minDep = *c.MinDeposit
		}
		gotMin := int64(-1)
		if len(p.MinDeposit) > 0 {
			gotMin = stakeOf(p.MinDeposit)
		}
		if p.MaxRequestTimeout != c.MaxTimeout || p.MinDepositMultiple != c.Multiple || gotMin != minDep || !p.ServiceFeeTax.Equal(decOf(c.Tax)) ||
			!p.SlashFraction.Equal(decOf(c.Slash)) || int64(p.ComplaintRetrospect) != c.ComplaintNs || int64(p.ArbitrationTimeLimit) != c.ArbitrationNs ||
			p.BaseDenom != c.baseDenom() {
			q.fail(qu.Kind, "gRPC params %v differ from the parameters in force %+v", p, c)
		}
		lbz, lerr := q.legacy(types.QueryParameters, nil)
		var lg types.Params
		if lerr == nil {
			lerr = q.legDecode(lbz, &lg)
		}
		if lerr != nil || q.bz(&lg) != q.bz(&p) {
			q.fail(qu.Kind, "legacy params %v (err %v) differ from gRPC params %v", lg, lerr, p)
		}
	}
}

// GenQueries draws queries with arguments from the existing and non-existing entities of the state.
func GenQueries(t *rapid.T, g *GenState) []Query {
	s := g.Snap
	services := append(append([]string{}, ServiceNames...), ModSvcName, "zz")
	addrsAll := AllAddrs()
	if g.Cfg.ModSvc != nil {
		addrsAll = append(addrsAll, g.Cfg.ModSvc.Provider)
	}
	ctxs := append([]string{hx(rep(0x11, 40))}, g.CtxIDs...)
	reqs := append([]string{hx(rep(0x22, 58))}, g.ReqIDs...)
	for _, id := range sortedKeys(s.ActiveID) {
		reqs = append(reqs, id)
	}
	var out []Query
	for _, kind := range QueryKinds {
		n := 2
		for i := 0; i < n; i++ {
			q := Query{Kind: kind}
			switch kind {
			case "definition":
				q.Service = pick(t, "q_svc", services)
			case "binding", "requests":
				if bl := g.bindingsList(); len(bl) > 0 && pct(t, "q_existing", 60) {
					b := pick(t, "q_binding", bl)
					q.Service, q.Addr = b.ServiceName, hx(b.Provider)
				} else {
					q.Service, q.Addr = pick(t, "q_svc", services), pick(t, "q_addr", addrsAll)
				}
				if kind == "requests" && len(s.ActiveB) > 0 && pct(t, "q_active", 60) {
					e := pick(t, "q_activeb", s.ActiveB)
					q.Service = e.Service
					if rq, ok := s.Reqs[e.ReqID]; ok {
						q.Addr = hx(rq.Provider)
					}
				}
			case "bindings":
				q.Service = pick(t, "q_svc", services)
				if pct(t, "q_owner", 50) {
					q.Addr = pick(t, "q_owner_addr", Signers)
				}
				if bl := g.bindingsList(); len(bl) > 0 && pct(t, "q_owner_cut", 8) {
					// the owner cut short by its last byte and that byte moved to the front of the service name:
					// another (owner, service) pair, whose bytes run together to the same string
					b := pick(t, "q_owner_cut_binding", bl)
					if o := []byte(b.Owner); len(o) == 20 && (o[19] == 0 || (o[19] >= 'a' && o[19] <= 'z')) {
						q.Addr, q.Service = hx(o[:19]), string(o[19:])+b.ServiceName
					}
				}
			case "withdraw_address":
				q.Addr = pick(t, "q_owner_addr", Signers)
			case "context":
				q.ID = pick(t, "q_ctx", ctxs)
			case "request", "response":
				q.ID = pick(t, "q_req", reqs)
				if pct(t, "q_malformed_id", 4) {
					// an existing identifier cut short or extended by a byte is not an identifier
					q.ID = pick(t, "q_malformed", []string{q.ID[:len(q.ID)-2], q.ID + "00", q.ID[:80]})
				}
			case "requests_by_ctx", "responses":
				q.ID = pick(t, "q_ctx", ctxs)
				if rc, ok := s.Ctxs[q.ID]; ok {
					q.Batch = pick(t, "q_batch", []uint64{rc.BatchCounter, rc.BatchCounter + 1, 0, rc.BatchCounter - 1})
				} else {
					q.Batch = pick(t, "q_batch_any", []uint64{1, 0, 2})
				}
				if len(q.ID) == 80 && pct(t, "q_malformed_ctx", 6) {
					// the transaction hash alone, or the identifier cut short by a byte, asked for "batch" 0..1
					q.ID = pick(t, "q_ctx_cut", []string{q.ID[:64], q.ID[:78], q.ID[:64]})
					q.Batch = pick(t, "q_batch_idx", []uint64{0, 1})
				}
			case "fees":
				if len(s.Earned) > 0 && pct(t, "q_earning", 50) {
					q.Addr = pick(t, "q_earner", s.Earned).Provider
				} else {
					q.Addr = pick(t, "q_addr", addrsAll)
				}
			case "schema":
				q.Schema = pick(t, "q_schema", []string{"pricing", "result", "Pricing", "input", ""})
			}
			out = append(out, q)
			if kind == "parameters" {
				break
			}
		}
	}
	return out
}

// sameCoins: the two lists name the same positive amounts per denomination, each denomination once
func sameCoins(got, want sdk.Coins) bool {
	m := map[string]string{}
	for _, c := range got {
		if _, dup := m[c.Denom]; dup {
			return false
		}
		if c.Amount.IsPositive() {
			m[c.Denom] = c.Amount.String()
		} else if c.Amount.IsNegative() {
			return false
		}
	}
	n := 0
	for _, c := range want {
		if c.Amount.IsPositive() {
			n++
			if m[c.Denom] != c.Amount.String() {
				return false
			}
		}
	}
	return n == len(m)
}
