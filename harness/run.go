package harness

import (
	"fmt"
	"os"
	"os/exec"
	"path/filepath"
	"strings"

	"pgregory.net/rapid"
)

// Exec executes a history against a fresh world and feeds the property's oracle.
type Exec struct {
	Prop string
	Cfg  Config
	W    *World
	M    *Model
	O    Oracle
	Acts []Action
	Recs int
	// Twins: further independent worlds executing the same history (C20)
	Twins   []*World
	Digests []string // state digest after every action (C20)
	ctxIDs  []string // contexts in creation order / requests in first-seen order (targets of symbolic references)
	reqIDs  []string
	reqSeen map[string]bool
}

// resolve replaces symbolic references by the concrete IDs of this execution
func (e *Exec) resolve(a Action) Action {
	if a.CtxRef != nil && *a.CtxRef >= 0 && *a.CtxRef < len(e.ctxIDs) {
		a.CtxID = e.ctxIDs[*a.CtxRef]
	}
	if a.ReqRef != nil && *a.ReqRef >= 0 && *a.ReqRef < len(e.reqIDs) {
		a.ReqID = e.reqIDs[*a.ReqRef]
	}
	if len(a.Msgs) > 0 {
		ms := make([]Action, len(a.Msgs))
		for i, m := range a.Msgs {
			ms[i] = e.resolve(m)
		}
		a.Msgs = ms
	}
	return a
}

func (e *Exec) remember(rec *StepRec) {
	if rec.OK {
		e.ctxIDs = append(e.ctxIDs, rec.CtxIDs...)
	}
	if e.reqSeen == nil {
		e.reqSeen = map[string]bool{}
	}
	for _, id := range sortedKeys(rec.Post.Reqs) {
		if !e.reqSeen[id] {
			e.reqSeen[id] = true
			e.reqIDs = append(e.reqIDs, id)
		}
	}
}

func NewExec(prop string, cfg Config) *Exec {
	w := NewWorld(cfg)
	m := NewModel()
	ex := &Exec{Prop: prop, Cfg: cfg, W: w, M: m, O: NewOracle(prop, w, m)}
	if prop == "C20" {
		n := 1
		if os.Getenv("VERIF_TIER") == "thorough" {
			n = 2
		}
		for i := 0; i < n; i++ {
			tw := NewWorld(cfg)
			// the first twin is a node whose process restarts before every step: same stores, empty
			// process memory, registrations redone as at application start
			tw.RebootEachStep = i == 0
			ex.Twins = append(ex.Twins, tw)
		}
	}
	return ex
}

// probeGens draw the payload of a probe for the property (nil: the property uses no probes)
var probeGens = map[string]func(t *rapid.T, g *GenState) string{}

// probes observe the state on a branch (nothing is committed): property -> function
var probes = map[string]func(e *Exec, payload string) []Violation{}

// Do executes one action; returns the step record and the violations the oracle raised.
func (e *Exec) Do(a Action) (*StepRec, []Violation) {
	if a.Kind == KProbe {
		e.Acts = append(e.Acts, a)
		snap := e.W.Snapshot()
		rec := &StepRec{Index: e.W.steps, Action: a, Pre: snap, Post: snap, OK: true, Height: e.W.Height(), TimeNs: e.W.TimeNs()}
		var vs []Violation
		if p := probes[e.Prop]; p != nil {
			saved := e.W.ctx
			branch, _ := saved.CacheContext()
			e.W.ctx = branch
			cbs, mo, mi := len(e.W.cbs), len(e.W.modOuts), e.W.modIdx
			vs = p(e, a.Extra)
			e.W.ctx = saved
			e.W.cbs, e.W.modOuts, e.W.modIdx = e.W.cbs[:cbs], e.W.modOuts[:mo], mi
		}
		return rec, vs
	}
	a = e.resolve(a)
	rec := e.W.Step(a)
	e.remember(rec)
	e.Acts = append(e.Acts, a)
	var vs []Violation
	if e.Prop == "C20" {
		e.Digests = append(e.Digests, rec.Post.Digest())
	}
	for i, tw := range e.Twins {
		tr := tw.Step(a)
		if tr.OK != rec.OK || tr.Post.Digest() != rec.Post.Digest() {
			vs = append(vs, Violation{Prop: e.Prop, Sig: "c20:diverge:" + a.Kind,
				Msg: fmt.Sprintf("instance %d diverges after %s: ok=%v/%v digest %s vs %s (%s)", i+1, a.Kind, rec.OK, tr.OK, short(rec.Post.Digest()), short(tr.Post.Digest()), diffSnap(rec.Post, tr.Post))})
		}
	}
	feed := func(r *StepRec) {
		vs = append(vs, harnessSanity(e.Prop, r)...)
		vs = append(vs, e.O.Step(r)...)
		e.M.Observe(r)
		e.Recs++
	}
	if rec.OK && a.Kind == KTx {
		for _, sub := range rec.Subs {
			feed(sub)
		}
	} else {
		feed(rec)
	}
	return rec, vs
}

// diffSnap names the first difference between two snapshots
func diffSnap(a, b *Snapshot) string {
	for _, k := range sortedKeys(mergeKeys(a.Raw, b.Raw)) {
		if string(a.Raw[k]) != string(b.Raw[k]) {
			return fmt.Sprintf("store key %x differs", k)
		}
	}
	for _, k := range sortedAddrs(a.Bal, b.Bal) {
		if a.Bal[k] != b.Bal[k] {
			return fmt.Sprintf("balance of %s: %d vs %d", short(k), a.Bal[k], b.Bal[k])
		}
	}
	if a.Supply != b.Supply {
		return "supply differs"
	}
	return "height/time differ"
}

// harnessSanity: conditions that indicate a broken harness rather than a property violation
// are reported loudly (as violations of the running property with a distinct signature, so
// they are never mistaken for a known finding).
func harnessSanity(prop string, r *StepRec) []Violation {
	if !r.OK && !r.InTx && r.Action.Kind != KEndBlock {
		if r.Pre.Digest() != r.Post.Digest() {
			return []Violation{{Prop: prop, Msg: "harness: failed transaction left a trace", Sig: "harness"}}
		}
	}
	return nil
}

// NewOracle builds the oracle deciding the property.
func NewOracle(prop string, w *World, m *Model) Oracle {
	switch prop {
	case "C01":
		return newC01(w, m)
	case "C02":
		return newC02(w, m)
	case "C03":
		return newC03(w, m)
	case "C04":
		return newC04(w, m)
	case "C05":
		return newC05(w, m)
	case "C06":
		return newC06(w, m)
	case "C07":
		return newC07(w, m)
	case "C08":
		return newC08(w, m)
	case "C09":
		return newC09(w, m)
	case "C10":
		return newC10(w, m)
	case "C11":
		return newC11(w, m)
	case "C12":
		return newC12(w, m)
	case "C13":
		return newC13(w, m)
	case "C14":
		return newC14(w, m)
	case "C15":
		return newC15(w, m)
	case "C16":
		return newC16(w, m)
	case "C18":
		return newC18(w, m)
	case "C20":
		return newC20(w, m)
	case "C17", "C19":
		return &passive{oracleBase: newBase(prop, w)}
	}
	panic("harness: no oracle for " + prop)
}

// ---------------------------------------------------------------------------------------------

type runEnv struct {
	prop      string
	tier      string
	seed      uint64
	stats     *Stats
	known     KnownFile
	replayDir string
	failed    bool // a non-known violation has been seen: rapid is shrinking, stop counting
}

func envOr(k, d string) string {
	if v := os.Getenv(k); v != "" {
		return v
	}
	return d
}

// historyProperty is the rapid property for all history-shaped checks.
func (e *runEnv) historyProperty(t *rapid.T) {
	f := FocusFor(e.prop, e.tier)
	f.DrawCaseFlags(t)
	cfg := GenConfig(t, f)
	ex := NewExec(e.prop, cfg)
	g := NewGenState(cfg, f, ex.W.Snapshot())
	n := 4 + uniform(t, "steps", f.MaxSteps-3)
	var viol *Violation
	var knownHit *KnownFinding
	kinds := map[string]int{}
	kindsOK := map[string]int{}
	errs := map[string]int{}
	prelude := g.GenPrelude(t)
	for i := 0; i < n+len(prelude) && viol == nil && knownHit == nil; i++ {
		var a Action
		if i < len(prelude) {
			a = prelude[i]
		} else if pg := probeGens[e.prop]; pg != nil && i > len(prelude) && pct(t, "probe", 6) {
			a = Action{Kind: KProbe, Extra: pg(t, g)}
		} else {
			a = g.GenAction(t)
		}
		denomBefore := ex.W.Cfg().baseDenom()
		rec, vs := ex.Do(a)
		g.Observe(rec)
		kinds[a.Kind]++
		if a.Kind == KSetParams && rec.OK && ex.W.Cfg().baseDenom() != denomBefore {
			kinds["set_params(base_denom)"]++
		}
		if rec.OK {
			kindsOK[a.Kind]++
		} else if os.Getenv("VERIF_ERRHIST") != "" {
			msg := rec.VBErr + "|" + rec.Err + "|" + rec.Panic
			if len(msg) > 90 {
				msg = msg[:90]
			}
			errs["err:"+a.Kind+":"+msg]++
		}
		for _, v := range vs {
			v := v
			if kf := e.known.Match(v); kf != nil {
				knownHit = kf
				break
			}
			viol = &v
			break
		}
	}
	extra := ""
	if viol == nil && knownHit == nil && e.prop == "C20" && e.tier == "thorough" && !e.failed && e.stats.Evaluations%40 == 7 {
		// the same history in a second operating-system process
		if v := otherProcessDigests(e, cfg, f, ex); v != nil {
			viol = v
		} else {
			e.stats.Extra["replayed_in_second_process"]++
		}
	}
	if viol == nil && knownHit == nil {
		if tr := trailers[e.prop]; tr != nil {
			var vs []Violation
			vs, extra = tr(t, ex, g)
			for _, v := range vs {
				v := v
				if kf := e.known.Match(v); kf != nil {
					knownHit = kf
					break
				}
				viol = &v
				break
			}
		}
	}
	if viol == nil && knownHit == nil {
		for _, v := range ex.O.End() {
			v := v
			if kf := e.known.Match(v); kf != nil {
				knownHit = kf
				break
			}
			viol = &v
			break
		}
	}
	if viol != nil {
		e.failed = true
		path := filepath.Join(e.replayDir, fmt.Sprintf("%s-seed%d.json", e.prop, e.seed))
		WriteReplay(path, Replay{Prop: e.prop, Seed: e.seed, Config: cfg, Focus: f, Actions: ex.Acts, Violation: viol, Extra: extra})
		e.stats.ReplayPath = path
		e.stats.Violations = []Violation{*viol}
		t.Fatalf("VIOLATION %s after %d actions", viol.String(), len(ex.Acts))
	}
	if e.failed {
		return
	}
	st := e.stats
	st.Evaluations++
	st.Steps += len(ex.Acts)
	if f.foreign {
		st.Extra["cases_quoting_prices_in_second_token"]++
	}
	if cfg.ExchangeRate != "" {
		st.Extra["cases_with_exchange_rate_service"]++
	}
	for k, v := range kinds {
		st.ActionKinds[k] += v
	}
	for k, v := range kindsOK {
		st.ActionOK[k] += v
	}
	for k, v := range errs {
		st.Extra[k] += v
	}
	if knownHit != nil {
		st.ExcludedKnown++
		st.KnownHits[knownHit.Sig]++
		st.KnownWhat[knownHit.Sig] = knownHit.What
		return
	}
	st.AddClasses(ex.O.Classes())
	if ex.O.NonTrivial() {
		h := actionsHash(cfg, ex.Acts)
		if !st.ntSeen[h] {
			st.AddNonTrivial(h)
			st.AddSample(map[string]interface{}{"config": cfg, "actions": ex.Acts, "classes": ex.O.Classes()})
		}
	}
}

// otherProcessDigests runs the history in a fresh process (this test binary, TestDigest) and
// compares the per-step digests with the ones computed here.
func otherProcessDigests(e *runEnv, cfg Config, f Focus, ex *Exec) *Violation {
	tmp, err := os.CreateTemp("", "verif-c20-*.json")
	if err != nil {
		return nil
	}
	tmp.Close()
	defer os.Remove(tmp.Name())
	WriteReplay(tmp.Name(), Replay{Prop: "C20", Config: cfg, Focus: f, Actions: ex.Acts})
	cmd := exec.Command(os.Args[0], "-test.run", "^TestDigest$")
	cmd.Env = append(os.Environ(), "VERIF_REPLAY_FILE="+tmp.Name(), "VERIF_PROP=C20")
	out, err := cmd.Output()
	if err != nil {
		return nil // inconclusive: never a violation
	}
	var got []string
	for _, l := range strings.Split(string(out), "\n") {
		if strings.HasPrefix(l, "DIGEST ") {
			got = append(got, strings.TrimPrefix(l, "DIGEST "))
		}
	}
	if len(got) != len(ex.Digests) {
		return nil
	}
	for i := range got {
		if got[i] != ex.Digests[i] {
			return &Violation{Prop: "C20", Sig: "c20:diverge:process", Msg: fmt.Sprintf("a second process computes a different state after action %d (%s)", i, ex.Acts[i].Kind)}
		}
	}
	return nil
}

// passive oracle: the property is decided by a trailer after the history
type passive struct {
	oracleBase
	nt bool
}

func (p *passive) Step(r *StepRec) []Violation { return nil }
func (p *passive) NonTrivial() bool            { return p.nt }

// trailers run after the generated history (queries, export/import ...); they return the
// violations and a serialised description of what they did, for the replay file.
var trailers = map[string]func(t *rapid.T, ex *Exec, g *GenState) ([]Violation, string){}

// replayTrailers re-run a saved trailer
var replayTrailers = map[string]func(ex *Exec, extra string) []Violation{}

// ReplayHistory re-executes a saved history without rapid; returns the first violation.
func ReplayHistory(r Replay) *Violation {
	ex := NewExec(r.Prop, r.Config)
	for _, a := range r.Actions {
		_, vs := ex.Do(a)
		if len(vs) > 0 {
			return &vs[0]
		}
	}
	if tr := replayTrailers[r.Prop]; tr != nil {
		if vs := tr(ex, r.Extra); len(vs) > 0 {
			return &vs[0]
		}
	}
	if vs := ex.O.End(); len(vs) > 0 {
		return &vs[0]
	}
	return nil
}
