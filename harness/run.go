package harness

import (
	"fmt"
	"os"
	"path/filepath"

	"pgregory.net/rapid"
)

// Exec executes a history against a fresh world and feeds the property's oracle.
type Exec struct {
	Prop string
	Cfg  Config
	W    *World
	M    *Model
	O    Oracle
	Acts []Action
	Recs int
}

func NewExec(prop string, cfg Config) *Exec {
	w := NewWorld(cfg)
	m := NewModel()
	return &Exec{Prop: prop, Cfg: cfg, W: w, M: m, O: NewOracle(prop, w, m)}
}

// Do executes one action; returns the step record and the violations the oracle raised.
func (e *Exec) Do(a Action) (*StepRec, []Violation) {
	rec := e.W.Step(a)
	e.Acts = append(e.Acts, a)
	var vs []Violation
	feed := func(r *StepRec) {
		vs = append(vs, harnessSanity(e.Prop, r)...)
		vs = append(vs, e.O.Step(r)...)
		e.M.Observe(r)
		e.Recs++
	}
	if rec.OK && a.Kind == KTx {
		for _, sub := range rec.Subs {
			feed(sub)
		}
	} else {
		feed(rec)
	}
	return rec, vs
}

// harnessSanity: conditions that indicate a broken harness rather than a property violation
// are reported loudly (as violations of the running property with a distinct signature, so
// they are never mistaken for a known finding).
func harnessSanity(prop string, r *StepRec) []Violation {
	if !r.OK && !r.InTx && r.Action.Kind != KEndBlock {
		if r.Pre.Digest() != r.Post.Digest() {
			return []Violation{{Prop: prop, Msg: "harness: failed transaction left a trace", Sig: "harness"}}
		}
	}
	return nil
}

// NewOracle builds the oracle deciding the property.
func NewOracle(prop string, w *World, m *Model) Oracle {
	switch prop {
	case "C01":
		return newC01(w, m)
	case "C02":
		return newC02(w, m)
	case "C03":
		return newC03(w, m)
	case "C04":
		return newC04(w, m)
	case "C05":
		return newC05(w, m)
	case "C06":
		return newC06(w, m)
	case "C07":
		return newC07(w, m)
	case "C08":
		return newC08(w, m)
	case "C09":
		return newC09(w, m)
	case "C10":
		return newC10(w, m)
	case "C11":
		return newC11(w, m)
	case "C12":
		return newC12(w, m)
	case "C13":
		return newC13(w, m)
	case "C14":
		return newC14(w, m)
	case "C15":
		return newC15(w, m)
	case "C16":
		return newC16(w, m)
	}
	panic("harness: no oracle for " + prop)
}

// ---------------------------------------------------------------------------------------------

type runEnv struct {
	prop      string
	tier      string
	seed      uint64
	stats     *Stats
	known     KnownFile
	replayDir string
	failed    bool // a non-known violation has been seen: rapid is shrinking, stop counting
}

func envOr(k, d string) string {
	if v := os.Getenv(k); v != "" {
		return v
	}
	return d
}

// historyProperty is the rapid property for all history-shaped checks.
func (e *runEnv) historyProperty(t *rapid.T) {
	f := FocusFor(e.prop, e.tier)
	cfg := GenConfig(t, f)
	ex := NewExec(e.prop, cfg)
	g := NewGenState(cfg, f, ex.W.Snapshot())
	n := 4 + uniform(t, "steps", f.MaxSteps-3)
	var viol *Violation
	var knownHit *KnownFinding
	kinds := map[string]int{}
	kindsOK := map[string]int{}
	errs := map[string]int{}
	for i := 0; i < n && viol == nil && knownHit == nil; i++ {
		a := g.GenAction(t)
		rec, vs := ex.Do(a)
		g.Observe(rec)
		kinds[a.Kind]++
		if rec.OK {
			kindsOK[a.Kind]++
		} else if os.Getenv("VERIF_ERRHIST") != "" {
			msg := rec.VBErr + "|" + rec.Err + "|" + rec.Panic
			if len(msg) > 90 {
				msg = msg[:90]
			}
			errs["err:"+a.Kind+":"+msg]++
		}
		for _, v := range vs {
			v := v
			if kf := e.known.Match(v); kf != nil {
				knownHit = kf
				break
			}
			viol = &v
			break
		}
	}
	if viol == nil && knownHit == nil {
		for _, v := range ex.O.End() {
			v := v
			if kf := e.known.Match(v); kf != nil {
				knownHit = kf
				break
			}
			viol = &v
			break
		}
	}
	if viol != nil {
		e.failed = true
		path := filepath.Join(e.replayDir, fmt.Sprintf("%s-seed%d.json", e.prop, e.seed))
		WriteReplay(path, Replay{Prop: e.prop, Seed: e.seed, Config: cfg, Focus: f, Actions: ex.Acts, Violation: viol})
		e.stats.ReplayPath = path
		e.stats.Violations = []Violation{*viol}
		t.Fatalf("VIOLATION %s after %d actions", viol.String(), len(ex.Acts))
	}
	if e.failed {
		return
	}
	st := e.stats
	st.Evaluations++
	st.Steps += len(ex.Acts)
	for k, v := range kinds {
		st.ActionKinds[k] += v
	}
	for k, v := range kindsOK {
		st.ActionOK[k] += v
	}
	for k, v := range errs {
		st.Extra[k] += v
	}
	if knownHit != nil {
		st.ExcludedKnown++
		st.KnownHits[knownHit.Sig]++
		st.KnownWhat[knownHit.Sig] = knownHit.What
		return
	}
	st.AddClasses(ex.O.Classes())
	if ex.O.NonTrivial() {
		h := actionsHash(cfg, ex.Acts)
		if !st.ntSeen[h] {
			st.AddNonTrivial(h)
			st.AddSample(map[string]interface{}{"config": cfg, "actions": ex.Acts, "classes": ex.O.Classes()})
		}
	}
}

// ReplayHistory re-executes a saved history without rapid; returns the first violation.
func ReplayHistory(r Replay) *Violation {
	ex := NewExec(r.Prop, r.Config)
	for _, a := range r.Actions {
		_, vs := ex.Do(a)
		if len(vs) > 0 {
			return &vs[0]
		}
	}
	if vs := ex.O.End(); len(vs) > 0 {
		return &vs[0]
	}
	return nil
}
