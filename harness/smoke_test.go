package harness

import (
	"fmt"
	"testing"
)

func TestSmoke(t *testing.T) {
	S0 := "a0a0a0a0a0a0a0a0a0a0a0a0a0a0a0a0a0a0a0a0"
	S1 := "b1b1b1b1b1b1b1b1b1b1b1b1b1b1b1b1b1b1b1b1"
	cfg := Config{Tax: "0.1", Slash: "0.5", MaxTimeout: 10, MinDeposit: i64(100), Multiple: 2,
		ArbitrationNs: 1000, ComplaintNs: 1000, Funding: map[string]int64{S0: 100000, S1: 500}}
	w := NewWorld(cfg)
	steps := []Action{
		{Kind: KDefine, Signer: S0, Service: "svc", Schemas: `{"input":{"type":"object"},"output":{"type":"object"}}`},
		{Kind: KBind, Signer: S0, Service: "svc", Provider: S0, Deposit: i64(1000), Pricing: `{"price":"10stake"}`, QoS: 1, Options: "{}"},
		{Kind: KCall, Signer: S1, Service: "svc", Providers: []string{S0}, Input: `{"header":{}}`, FeeCap: i64(100), Timeout: 2},
		{Kind: KEndBlock, DeltaNs: 5e9},
		{Kind: KEndBlock, DeltaNs: 5e9},
		{Kind: KEndBlock, DeltaNs: 5e9},
		{Kind: KEndBlock, DeltaNs: 5e9},
	}
	for _, a := range steps {
		r := w.Step(a)
		fmt.Printf("%s ok=%v vb=%q err=%q panic=%q ctx=%v reqs=%d active=%d bal(S1)=%d escrow=%d dep=%d supply=%d ctxs=%d\n", a.Kind, r.OK, r.VBErr, r.Err, r.Panic, r.CtxIDs,
			len(r.Post.Reqs), len(r.Post.ActiveID), r.Post.Bal[S1], r.Post.Bal[w.RequestAcc], r.Post.Bal[w.DepositAcc], r.Post.Supply, len(r.Post.Ctxs))
		if len(r.Post.Malformed) > 0 {
			t.Fatalf("malformed: %v", r.Post.Malformed)
		}
	}
}
