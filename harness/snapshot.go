package harness

import (
	"bytes"
	"crypto/sha256"
	"encoding/binary"
	"fmt"
	"sort"
	"strings"

	gogotypes "github.com/gogo/protobuf/types"

	sdk "github.com/cosmos/cosmos-sdk/types"

	"github.com/irismod/service/types"
)

// The snapshot is the harness's ground truth: a raw iteration over every key of the service
// store, decoded by the harness's own key parsers (values through the proto codec), plus a raw
// iteration of the bank balances and the total supply. None of the module's lookup or scan
// functions is used to build it.

// QEntry is an entry of the expiry (0x09) or new-batch (0x10) queue.
type QEntry struct {
	Height int64
	Ctx    string // hex
}

// ActEntry is an active-request marker by binding (0x14).
type ActEntry struct {
	Service  string
	Provider string // bech32 string as found in the key
	Height   int64
	ReqID    string // hex, from the key
	ValReqID string // hex, from the value
}

// EarnEntry is a provider earned-fee record (0x18).
type EarnEntry struct {
	Provider string // hex: key body minus the denom suffix of the stored coin
	Denom    string
	Amount   int64
	KeyBody  string // hex of key[1:]
}

type VolEntry struct {
	Consumer string // bech32
	Service  string
	Provider string // bech32
	Volume   uint64
}

type OwnerBindEntry struct {
	Owner    string // hex (first 20 bytes)
	Service  string
	Provider string // hex
}

type Snapshot struct {
	Height int64
	TimeNs int64

	Defs       map[string]types.ServiceDefinition // by name
	Binds      map[string]types.ServiceBinding    // by bkey(service, providerHex)
	BindKeyOK  map[string]bool                    // bkey -> stored under the key its content implies
	OwnerBinds []OwnerBindEntry                   // 0x03
	Owner      map[string]string                  // provider hex -> owner hex (0x04)
	OwnerProvs map[string]bool                    // hex of key[1:] (0x05)
	Pricing    map[string]types.Pricing           // by "service\x00bech32" as in key
	Withdraw   map[string]string                  // owner hex -> addr hex
	Ctxs       map[string]types.RequestContext    // ctx hex
	ExpQ       []QEntry
	NewQ       []QEntry
	ExpH       map[string]int64
	NewH       map[string]int64
	Reqs       map[string]types.CompactRequest // req hex
	ActiveB    []ActEntry
	ActiveID   map[string]string // req hex (from key) -> req hex (from value)
	Resps      map[string]types.Response
	Vols       []VolEntry
	Earned     []EarnEntry
	OwnerEarn  map[string]int64 // owner hex -> amount of stake
	OwnerEarnP map[string]int64 // owner hex -> amount of the second coin ("point")
	Malformed  []string         // keys the harness could not parse

	Raw map[string][]byte // every pair of the service store

	Bal    map[string]int64 // addr hex -> stake balance (all accounts, raw bank scan)
	Supply int64
	BalP    map[string]int64 // addr hex -> balance of the second coin ("point"), where any exists
	SupplyP int64
}

func bkey(service, providerHex string) string { return service + "|" + providerHex }

func mustI64(i sdk.Int) int64 {
	if !i.IsInt64() {
		panic("harness: amount exceeds int64: " + i.String())
	}
	return i.Int64()
}

func stakeOf(c sdk.Coins) int64 {
	var tot int64
	for _, x := range c {
		if x.Denom == "stake" {
			tot += mustI64(x.Amount)
		}
	}
	return tot
}

func (w *World) Snapshot() *Snapshot { return w.SnapshotAt(w.ctx) }

func (w *World) SnapshotAt(ctx sdk.Context) *Snapshot {
	s := &Snapshot{
		Height:     ctx.BlockHeight(),
		TimeNs:     ctx.BlockTime().UnixNano(),
		Defs:       map[string]types.ServiceDefinition{},
		Binds:      map[string]types.ServiceBinding{},
		BindKeyOK:  map[string]bool{},
		Owner:      map[string]string{},
		OwnerProvs: map[string]bool{},
		Pricing:    map[string]types.Pricing{},
		Withdraw:   map[string]string{},
		Ctxs:       map[string]types.RequestContext{},
		ExpH:       map[string]int64{},
		NewH:       map[string]int64{},
		Reqs:       map[string]types.CompactRequest{},
		ActiveID:   map[string]string{},
		Resps:      map[string]types.Response{},
		OwnerEarn:  map[string]int64{},
		OwnerEarnP: map[string]int64{},
		Raw:        map[string][]byte{},
		Bal:        map[string]int64{},
		BalP:       map[string]int64{},
	}
	cdc := w.app.AppCodec()
	store := ctx.KVStore(w.app.GetKey(types.StoreKey))
	it := store.Iterator(nil, nil)
	for ; it.Valid(); it.Next() {
		k := append([]byte{}, it.Key()...)
		v := append([]byte{}, it.Value()...)
		s.Raw[string(k)] = v
		body := k[1:]
		bad := func() { s.Malformed = append(s.Malformed, hx(k)) }
		switch k[0] {
		case 0x01:
			var d types.ServiceDefinition
			if cdc.UnmarshalBinaryBare(v, &d) != nil {
				bad()
				continue
			}
			s.Defs[string(body)] = d
		case 0x02:
			var b types.ServiceBinding
			if cdc.UnmarshalBinaryBare(v, &b) != nil {
				bad()
				continue
			}
			bk := bkey(b.ServiceName, hx(b.Provider))
			s.Binds[bk] = b
			s.BindKeyOK[bk] = string(body) == b.ServiceName+"\x00"+b.Provider.String()
		case 0x03:
			if len(body) < 20 {
				bad()
				continue
			}
			rest := body[20:]
			i := bytes.IndexByte(rest, 0)
			if i < 0 {
				bad()
				continue
			}
			s.OwnerBinds = append(s.OwnerBinds, OwnerBindEntry{Owner: hx(body[:20]), Service: string(rest[:i]), Provider: hx(rest[i+1:])})
		case 0x04:
			var bv gogotypes.BytesValue
			if cdc.UnmarshalBinaryBare(v, &bv) != nil {
				bad()
				continue
			}
			s.Owner[hx(body)] = hx(bv.Value)
		case 0x05:
			s.OwnerProvs[hx(body)] = true
		case 0x06:
			var p types.Pricing
			if cdc.UnmarshalBinaryBare(v, &p) != nil {
				bad()
				continue
			}
			s.Pricing[string(body)] = p
		case 0x07:
			s.Withdraw[hx(body)] = hx(v)
		case 0x08:
			var rc types.RequestContext
			if cdc.UnmarshalBinaryBare(v, &rc) != nil {
				bad()
				continue
			}
			s.Ctxs[hx(body)] = rc
		case 0x09, 0x10:
			if len(body) != 48 {
				bad()
				continue
			}
			var bv gogotypes.BytesValue
			if cdc.UnmarshalBinaryBare(v, &bv) != nil || !bytes.Equal(bv.Value, body[8:]) {
				bad()
				continue
			}
			e := QEntry{Height: int64(binary.BigEndian.Uint64(body[:8])), Ctx: hx(body[8:])}
			if k[0] == 0x09 {
				s.ExpQ = append(s.ExpQ, e)
			} else {
				s.NewQ = append(s.NewQ, e)
			}
		case 0x11, 0x12:
			var iv gogotypes.Int64Value
			if cdc.UnmarshalBinaryBare(v, &iv) != nil {
				bad()
				continue
			}
			if k[0] == 0x11 {
				s.ExpH[hx(body)] = iv.Value
			} else {
				s.NewH[hx(body)] = iv.Value
			}
		case 0x13:
			var r types.CompactRequest
			if cdc.UnmarshalBinaryBare(v, &r) != nil {
				bad()
				continue
			}
			s.Reqs[hx(body)] = r
		case 0x14:
			// service \0 bech32 \0 height(8) reqID(58)
			if len(body) < 58+8+1 {
				bad()
				continue
			}
			reqID := body[len(body)-58:]
			h := body[len(body)-66 : len(body)-58]
			head := body[:len(body)-66]
			if len(head) == 0 || head[len(head)-1] != 0 {
				bad()
				continue
			}
			head = head[:len(head)-1]
			i := bytes.IndexByte(head, 0)
			if i < 0 {
				bad()
				continue
			}
			var bv gogotypes.BytesValue
			if cdc.UnmarshalBinaryBare(v, &bv) != nil {
				bad()
				continue
			}
			s.ActiveB = append(s.ActiveB, ActEntry{Service: string(head[:i]), Provider: string(head[i+1:]),
				Height: int64(binary.BigEndian.Uint64(h)), ReqID: hx(reqID), ValReqID: hx(bv.Value)})
		case 0x15:
			var bv gogotypes.BytesValue
			if cdc.UnmarshalBinaryBare(v, &bv) != nil {
				bad()
				continue
			}
			s.ActiveID[hx(body)] = hx(bv.Value)
		case 0x16:
			var r types.Response
			if cdc.UnmarshalBinaryBare(v, &r) != nil {
				bad()
				continue
			}
			s.Resps[hx(body)] = r
		case 0x17:
			// consumer \0 service \0 provider \0
			parts := strings.Split(string(body), "\x00")
			var uv gogotypes.UInt64Value
			if len(parts) != 4 || parts[3] != "" || cdc.UnmarshalBinaryBare(v, &uv) != nil {
				bad()
				continue
			}
			s.Vols = append(s.Vols, VolEntry{Consumer: parts[0], Service: parts[1], Provider: parts[2], Volume: uv.Value})
		case 0x18:
			var c sdk.Coin
			if cdc.UnmarshalBinaryBare(v, &c) != nil || !bytes.HasSuffix(body, []byte(c.Denom)) {
				bad()
				continue
			}
			s.Earned = append(s.Earned, EarnEntry{Provider: hx(body[:len(body)-len(c.Denom)]), Denom: c.Denom,
				Amount: mustI64(c.Amount), KeyBody: hx(body)})
		case 0x19:
			var c sdk.Coin
			// key body: owner | denom of the stored coin
			if cdc.UnmarshalBinaryBare(v, &c) != nil || !bytes.HasSuffix(body, []byte(c.Denom)) {
				bad()
				continue
			}
			if c.Denom == "point" {
				s.OwnerEarnP[hx(body[:len(body)-len(c.Denom)])] += mustI64(c.Amount)
			} else {
				s.OwnerEarn[hx(body[:len(body)-len(c.Denom)])] += mustI64(c.Amount)
			}
		default:
			bad()
		}
	}
	it.Close()

	// bank: "balances" | addr | denom ; one denom ("stake") exists in the harness world
	bstore := ctx.KVStore(w.app.GetKey("bank"))
	bit := sdk.KVStorePrefixIterator(bstore, []byte("balances"))
	for ; bit.Valid(); bit.Next() {
		k := bit.Key()
		var c sdk.Coin
		cdc.MustUnmarshalBinaryBare(bit.Value(), &c)
		if c.Denom == "point" && bytes.HasSuffix(k, []byte("point")) {
			s.BalP[hx(k[8:len(k)-5])] += mustI64(c.Amount)
			continue
		}
		if c.Denom != "stake" || !bytes.HasSuffix(k, []byte("stake")) {
			continue
		}
		a := hx(k[8 : len(k)-5])
		s.Bal[a] += mustI64(c.Amount)
	}
	bit.Close()
	s.Supply = mustI64(w.app.BankKeeper.GetSupply(ctx).GetTotal().AmountOf("stake"))
	s.SupplyP = mustI64(w.app.BankKeeper.GetSupply(ctx).GetTotal().AmountOf("point"))
	return s
}

// Digest is a canonical hash of the whole observable state (service store, balances, supply).
func (s *Snapshot) Digest() string {
	h := sha256.New()
	keys := make([]string, 0, len(s.Raw))
	for k := range s.Raw {
		keys = append(keys, k)
	}
	sort.Strings(keys)
	for _, k := range keys {
		fmt.Fprintf(h, "%x=%x;", k, s.Raw[k])
	}
	as := make([]string, 0, len(s.Bal))
	for a := range s.Bal {
		as = append(as, a)
	}
	sort.Strings(as)
	for _, a := range as {
		if s.Bal[a] != 0 {
			fmt.Fprintf(h, "%s:%d;", a, s.Bal[a])
		}
	}
	ps := make([]string, 0, len(s.BalP))
	for a := range s.BalP {
		ps = append(ps, a)
	}
	sort.Strings(ps)
	for _, a := range ps {
		if s.BalP[a] != 0 {
			fmt.Fprintf(h, "%s:%dpoint;", a, s.BalP[a])
		}
	}
	fmt.Fprintf(h, "supply:%d;supplyP:%d;h:%d;t:%d", s.Supply, s.SupplyP, s.Height, s.TimeNs)
	return hx(h.Sum(nil))
}

func (s *Snapshot) bal(addrHex string) int64 { return s.Bal[addrHex] }

// EarnedOf returns the earned amount recorded exactly for the provider (hex).
func (s *Snapshot) EarnedOf(provHex string) int64 { return s.EarnedOfIn(provHex, "stake") }

// EarnedOfIn: the amount of one denomination recorded exactly for the provider
func (s *Snapshot) EarnedOfIn(provHex, denom string) int64 {
	var t int64
	for _, e := range s.Earned {
		if e.Provider == provHex && e.Denom == denom {
			t += e.Amount
		}
	}
	return t
}

// views of the snapshot in one denomination
func (s *Snapshot) balIn(denom string) map[string]int64 {
	if denom == "point" {
		return s.BalP
	}
	return s.Bal
}

func (s *Snapshot) supplyIn(denom string) int64 {
	if denom == "point" {
		return s.SupplyP
	}
	return s.Supply
}

func (s *Snapshot) ownerEarnIn(denom string) map[string]int64 {
	if denom == "point" {
		return s.OwnerEarnP
	}
	return s.OwnerEarn
}

func amtIn(c sdk.Coins, denom string) int64 { return mustI64(c.AmountOf(denom)) }

func sortedKeys[V any](m map[string]V) []string {
	ks := make([]string, 0, len(m))
	for k := range m {
		ks = append(ks, k)
	}
	sort.Strings(ks)
	return ks
}

// coinDenoms: the coins that can exist in the harness world
var coinDenoms = []string{"stake", "point"}
