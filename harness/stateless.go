package harness

import (
	"crypto/sha256"
	"encoding/json"
	"fmt"
	"path/filepath"
	"strings"

	"pgregory.net/rapid"
)

// Stateless properties: input generator + pure check. The failing input (shrunk by rapid) is
// saved as the replay file and can be re-checked without rapid.

type StatelessProp struct {
	Prop  string
	Name  string
	Gen   func(t *rapid.T) interface{}
	New   func() interface{}
	Check func(in interface{}) (v *Violation, classes []string, nontrivial bool)
}

var statelessProps = map[string]*StatelessProp{}

func registerStateless(p *StatelessProp) { statelessProps[p.Name] = p }

type statelessExtra struct {
	Name  string          `json:"stateless"`
	Input json.RawMessage `json:"input"`
}

func (e *runEnv) statelessProperty(sp *StatelessProp) func(t *rapid.T) {
	return func(t *rapid.T) {
		in := sp.Gen(t)
		var v *Violation
		var classes []string
		var nt bool
		func() {
			defer func() {
				if r := recover(); r != nil {
					v = &Violation{Prop: sp.Prop, Msg: fmt.Sprintf("the code under test panicked: %v", r), Sig: strings.ToLower(sp.Prop) + ":" + sp.Name + ":panic"}
				}
			}()
			v, classes, nt = sp.Check(in)
		}()
		bz, _ := json.Marshal(in)
		if v != nil {
			if kf := e.known.Match(*v); kf != nil {
				if !e.failed {
					e.stats.Evaluations++
					e.stats.ExcludedKnown++
					e.stats.KnownHits[kf.Sig]++
					e.stats.KnownWhat[kf.Sig] = kf.What
				}
				return
			}
			e.failed = true
			ex, _ := json.Marshal(statelessExtra{Name: sp.Name, Input: bz})
			path := filepath.Join(e.replayDir, fmt.Sprintf("%s-%s-seed%d.json", sp.Prop, sp.Name, e.seed))
			WriteReplay(path, Replay{Prop: sp.Prop, Seed: e.seed, Violation: v, Extra: string(ex)})
			e.stats.ReplayPath = path
			e.stats.Violations = []Violation{*v}
			t.Fatalf("VIOLATION %s input=%s", v.String(), bz)
		}
		if e.failed {
			return
		}
		st := e.stats
		st.Evaluations++
		cm := map[string]int{}
		for _, c := range classes {
			cm[c]++
		}
		st.AddClasses(cm)
		if nt {
			h := sha256.Sum256(bz)
			hs := hx(h[:10])
			if !st.ntSeen[hs] {
				st.AddNonTrivial(hs)
				st.AddSample(map[string]interface{}{"check": sp.Name, "input": json.RawMessage(bz)})
			}
		}
	}
}

// replayStateless re-checks a saved stateless input; ok=false if the replay is not stateless
func replayStateless(r Replay) (*Violation, bool) {
	var ex statelessExtra
	if r.Extra == "" || json.Unmarshal([]byte(r.Extra), &ex) != nil || ex.Name == "" {
		return nil, false
	}
	sp := statelessProps[ex.Name]
	if sp == nil {
		return nil, false
	}
	in := sp.New()
	if err := json.Unmarshal(ex.Input, in); err != nil {
		return &Violation{Prop: r.Prop, Msg: "cannot decode replay input: " + err.Error(), Sig: "harness"}, true
	}
	v, _, _ := sp.Check(in)
	return v, true
}
