package harness

import (
	"fmt"
	"time"

	sdk "github.com/cosmos/cosmos-sdk/types"

	"github.com/irismod/service/types"
	"pgregory.net/rapid"
)

// C07 (stateless part) — for a generated pricing, block time and response volume, both price
// functions of the keeper (the one that stamps the fee on a request and the one used for the
// cap filter and the charge) and the two discount selectors agree with the harness's
// exact-rational reading of the pricing text.

type priceInput struct {
	Pricing string `json:"pricing"`
	TimeNs  int64  `json:"time_ns"`
	Volume  uint64 `json:"volume"`
}

func genPriceInput(t *rapid.T) interface{} {
	in := &priceInput{Pricing: GenPricing(t, StartTimeNs)}
	rp, err := ParseRefPricing(in.Pricing)
	if err != nil {
		panic("harness: generated pricing does not parse: " + err.Error())
	}
	times := []int64{StartTimeNs, StartTimeNs + 1, StartTimeNs - 20e9, StartTimeNs + 7200e9}
	for _, w := range rp.ByTime {
		times = append(times, w.StartNs-1, w.StartNs, w.StartNs+1, w.EndNs-1, w.EndNs, w.EndNs+1, (w.StartNs+w.EndNs)/2)
	}
	in.TimeNs = pick(t, "time", times)
	vols := []uint64{0, 1, 2, 1000}
	for _, v := range rp.ByVol {
		vols = append(vols, v.Volume-1, v.Volume, v.Volume+1)
	}
	in.Volume = pick(t, "volume", vols)
	return in
}

func checkPrice(x interface{}) (*Violation, []string, bool) {
	in := x.(*priceInput)
	fail := func(sig, f string, a ...interface{}) (*Violation, []string, bool) {
		return &Violation{Prop: "C07", Msg: fmt.Sprintf(f, a...), Sig: "c07:price:" + sig}, nil, false
	}
	rp, err := ParseRefPricing(in.Pricing)
	if err != nil {
		return fail("harness", "pricing does not parse: %v", err)
	}
	w := NewWorld(defaultConfig())
	ctx := w.ctx.WithBlockTime(time.Unix(0, in.TimeNs).UTC())
	parsed, err := w.k.ParsePricing(ctx, in.Pricing)
	if err != nil {
		return fail("parse", "the module rejects the pricing %s: %v", in.Pricing, err)
	}
	if err := types.ValidatePricing(parsed); err != nil {
		return fail("validate", "the module's contract rejects the pricing %s: %v", in.Pricing, err)
	}
	prov, cons := addr(Signers[0]), addr(Signers[1])
	w.k.SetPricing(ctx, "svc", prov, parsed)
	if in.Volume > 0 {
		w.k.SetRequestVolume(ctx, cons, "svc", prov, in.Volume)
	}
	b := types.ServiceBinding{ServiceName: "svc", Provider: prov, Pricing: in.Pricing}
	want := rp.Fee(in.TimeNs, in.Volume)
	dT := types.GetDiscountByTime(parsed, ctx.BlockTime())
	dV := types.GetDiscountByVolume(parsed, in.Volume)
	if ratOfDec(dT).Cmp(rp.DiscountAt(in.TimeNs)) != 0 {
		return fail("time_discount", "time discount at %d for %s: module %s, published %s", in.TimeNs, in.Pricing, dT, rp.DiscountAt(in.TimeNs).RatString())
	}
	if ratOfDec(dV).Cmp(rp.DiscountFor(in.Volume)) != 0 {
		return fail("volume_discount", "volume discount at volume %d for %s: module %s, published %s", in.Volume, in.Pricing, dV, rp.DiscountFor(in.Volume).RatString())
	}
	got := w.k.GetPrice(ctx, cons, b)
	if len(got) != 1 || stakeOf(got) != want {
		return fail("stamp", "fee stamped on a request: %s, published price %d (pricing %s, time %d, volume %d)", got, want, in.Pricing, in.TimeNs, in.Volume)
	}
	ex, _, err := w.k.GetExchangedPrice(ctx, cons, b)
	if err != nil || stakeOf(ex) != want {
		return fail("charge", "price used for cap and charge: %s (err %v), published price %d (pricing %s, time %d, volume %d)", ex, err, want, in.Pricing, in.TimeNs, in.Volume)
	}
	if want > max64(rp.Base, 1) {
		return fail("bound", "price %d exceeds max(base %d, 1)", want, rp.Base)
	}
	var classes []string
	inWin := rp.DiscountAt(in.TimeNs).Cmp(ratOne) != 0
	inVol := rp.DiscountFor(in.Volume).Cmp(ratOne) != 0
	if inWin {
		classes = append(classes, "time_discount")
	}
	if inVol {
		classes = append(classes, "volume_discount")
	}
	if want == 1 && (rp.Base != 1 || inWin || inVol) {
		classes = append(classes, "clamped_to_one")
	}
	for _, win := range rp.ByTime {
		if in.TimeNs == win.StartNs || in.TimeNs == win.EndNs || in.TimeNs == win.EndNs-1 || in.TimeNs == win.StartNs-1 {
			classes = append(classes, "window_boundary_instant")
			break
		}
	}
	for _, v := range rp.ByVol {
		if in.Volume == v.Volume || in.Volume+1 == v.Volume {
			classes = append(classes, "volume_threshold_edge")
			break
		}
	}
	return nil, classes, inWin || inVol || want == 1
}

func init() {
	registerStateless(&StatelessProp{Prop: "C07", Name: "price", Gen: genPriceInput, New: func() interface{} { return &priceInput{} }, Check: checkPrice})
}

var _ = sdk.NewInt
