package harness

import (
	"fmt"
	"math/big"
	"time"

	sdk "github.com/cosmos/cosmos-sdk/types"

	"github.com/irismod/service/types"
	"pgregory.net/rapid"
)

// C07 (stateless part) — for a generated pricing, block time and response volume, both price
// functions of the keeper (the one that stamps the fee on a request and the one used for the
// cap filter and the charge) and the two discount selectors agree with the harness's
// exact-rational reading of the pricing text.

type priceInput struct {
	Pricing string `json:"pricing"`
	TimeNs  int64  `json:"time_ns"`
	Volume  uint64 `json:"volume"`
}

// genBigPricing: large base prices with discounts of up to 18 decimals (the full precision of the
// chain's decimal type), one window containing the start time, one or two thresholds
func genBigPricing(t *rapid.T) string {
	price := pick(t, "big_price", []string{"5000000000000000000000", "1000000000000000000", "999999999999999999999", "123456789012345678901234", "7"})
	d := func(label string) string {
		return pick(t, label, []string{"0.333333333333333333", "0.777777777777777777", "0.999999999999999999", "0.000000000000000001", "0.5", "0.123456789", "0.9"})
	}
	s := fmt.Sprintf(`{"price":"%sstake","promotions_by_time":[{"start_time":"%s","end_time":"%s","discount":"%s"}],"promotions_by_volume":[{"volume":1,"discount":"%s"},{"volume":3,"discount":"%s"}]}`,
		price, fmtTime(StartTimeNs-5e9), fmtTime(StartTimeNs+5e9), d("bd_t"), d("bd_v1"), d("bd_v2"))
	return s
}

func genPriceInput(t *rapid.T) interface{} {
	in := &priceInput{Pricing: GenPricing(t, StartTimeNs)}
	if pct(t, "big_pricing", 25) {
		in.Pricing = genBigPricing(t)
	}
	allowBigPrices = true
	rp, err := ParseRefPricing(in.Pricing)
	if err != nil {
		panic("harness: generated pricing does not parse: " + err.Error())
	}
	times := []int64{StartTimeNs, StartTimeNs + 1, StartTimeNs - 20e9, StartTimeNs + 7200e9}
	for _, w := range rp.ByTime {
		if w.StartNs > -1<<62 && w.EndNs < 1<<62 {
			times = append(times, w.StartNs-1, w.StartNs, w.StartNs+1, w.EndNs-1, w.EndNs, w.EndNs+1, (w.StartNs+w.EndNs)/2)
		} else if w.StartNs > -1<<62 {
			times = append(times, w.StartNs-1, w.StartNs, w.StartNs+1) // a window without an end in sight
		} else if w.EndNs < 1<<62 {
			times = append(times, w.EndNs-1, w.EndNs, w.EndNs+1) // a window that began before anybody counted
		}
	}
	in.TimeNs = pick(t, "time", times)
	vols := []uint64{0, 1, 2, 1000}
	for _, v := range rp.ByVol {
		vols = append(vols, v.Volume-1, v.Volume, v.Volume+1)
	}
	in.Volume = pick(t, "volume", vols)
	return in
}

func checkPrice(x interface{}) (*Violation, []string, bool) {
	in := x.(*priceInput)
	fail := func(sig, f string, a ...interface{}) (*Violation, []string, bool) {
		return &Violation{Prop: "C07", Msg: fmt.Sprintf(f, a...), Sig: "c07:price:" + sig}, nil, false
	}
	allowBigPrices = true
	rp, err := ParseRefPricing(in.Pricing)
	if err != nil {
		return fail("harness", "pricing does not parse: %v", err)
	}
	w := NewWorld(defaultConfig())
	ctx := w.ctx.WithBlockTime(time.Unix(0, in.TimeNs).UTC())
	parsed, err := w.k.ParsePricing(ctx, in.Pricing)
	if err != nil {
		return fail("parse", "the module rejects the pricing %s: %v", in.Pricing, err)
	}
	if err := types.ValidatePricing(parsed); err != nil {
		return fail("validate", "the module's contract rejects the pricing %s: %v", in.Pricing, err)
	}
	prov, cons := addr(Signers[0]), addr(Signers[1])
	w.k.SetPricing(ctx, "svc", prov, parsed)
	if in.Volume > 0 {
		w.k.SetRequestVolume(ctx, cons, "svc", prov, in.Volume)
	}
	b := types.ServiceBinding{ServiceName: "svc", Provider: prov, Pricing: in.Pricing}
	want := rp.FeeBig(in.TimeNs, in.Volume)
	dT := types.GetDiscountByTime(parsed, ctx.BlockTime())
	dV := types.GetDiscountByVolume(parsed, in.Volume)
	if ratOfDec(dT).Cmp(rp.DiscountAt(in.TimeNs)) != 0 {
		return fail("time_discount", "time discount at %d for %s: module %s, published %s", in.TimeNs, in.Pricing, dT, rp.DiscountAt(in.TimeNs).RatString())
	}
	if ratOfDec(dV).Cmp(rp.DiscountFor(in.Volume)) != 0 {
		return fail("volume_discount", "volume discount at volume %d for %s: module %s, published %s", in.Volume, in.Pricing, dV, rp.DiscountFor(in.Volume).RatString())
	}
	got := w.k.GetPrice(ctx, cons, b)
	if len(got) != 1 || !rp.FeeAcceptable(in.TimeNs, in.Volume, got[0].Amount.BigInt()) {
		return fail("stamp", "fee stamped on a request: %s, published price %d (pricing %s, time %d, volume %d)", got, want, in.Pricing, in.TimeNs, in.Volume)
	}
	ex, _, err := w.k.GetExchangedPrice(ctx, cons, b)
	if err != nil || len(ex) != 1 || !rp.FeeAcceptable(in.TimeNs, in.Volume, ex[0].Amount.BigInt()) {
		return fail("charge", "price used for cap and charge: %s (err %v), published price %d (pricing %s, time %d, volume %d)", ex, err, want, in.Pricing, in.TimeNs, in.Volume)
	}
	if want.Cmp(rp.BaseBig) > 0 && want.Cmp(big.NewInt(1)) > 0 {
		return fail("bound", "price %s exceeds max(base %s, 1)", want, rp.BaseBig)
	}
	var classes []string
	inWin := rp.DiscountAt(in.TimeNs).Cmp(ratOne) != 0
	inVol := rp.DiscountFor(in.Volume).Cmp(ratOne) != 0
	if inWin {
		classes = append(classes, "time_discount")
	}
	if inVol {
		classes = append(classes, "volume_discount")
	}
	if want.Cmp(big.NewInt(1)) == 0 && (rp.BaseBig.Cmp(big.NewInt(1)) != 0 || inWin || inVol) {
		classes = append(classes, "clamped_to_one")
	}
	for _, win := range rp.ByTime {
		if in.TimeNs == win.StartNs || in.TimeNs == win.EndNs || in.TimeNs == win.EndNs-1 || in.TimeNs == win.StartNs-1 {
			classes = append(classes, "window_boundary_instant")
			break
		}
	}
	for _, v := range rp.ByVol {
		if in.Volume == v.Volume || in.Volume+1 == v.Volume {
			classes = append(classes, "volume_threshold_edge")
			break
		}
	}
	if !rp.BaseBig.IsInt64() {
		classes = append(classes, "price_beyond_int64")
	}
	return nil, classes, inWin || inVol || want.Cmp(big.NewInt(1)) == 0
}

func init() {
	registerStateless(&StatelessProp{Prop: "C07", Name: "price", Gen: genPriceInput, New: func() interface{} { return &priceInput{} }, Check: checkPrice})
}

var _ = sdk.NewInt
