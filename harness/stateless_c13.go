package harness

import (
	"fmt"

	sdk "github.com/cosmos/cosmos-sdk/types"

	"github.com/irismod/service/types"
	"pgregory.net/rapid"
)

// C13 (keeper-level part) — withdrawals in a state that holds earnings in two denominations.
//
// No history of the harness can mint a second coin, so the state a chain is in after a
// governance change of the base denomination (providers that earned before and after it) is
// built directly through the keeper's own setters: an owner, one to four providers with earnings
// in "stake", in "point" or in both, the owner's total, the coins in the request escrow, and
// optionally a withdrawal address and a second owner whose records must stay untouched. One
// withdrawal (for one provider or for the whole owner) is then executed and judged by the
// statement of C13: it pays exactly the selected earnings to the withdrawal address, resets
// exactly the paid records, and leaves the owner's total equal to the sum of its providers'.

type earnerIn struct {
	Addr  string `json:"addr"` // hex, any length
	Stake int64  `json:"stake,omitempty"`
	Point int64  `json:"point,omitempty"`
}

type withdraw2Input struct {
	Owner     string     `json:"owner"`
	Providers []earnerIn `json:"providers"`
	Other     *earnerIn  `json:"other_owner_provider,omitempty"` // a provider of another owner (owner = signer 4)
	Withdraw  string     `json:"withdraw_addr,omitempty"`
	Target    int        `json:"target"` // index into Providers, or -1: the whole owner
	BaseDenom string     `json:"base_denom,omitempty"`
}

func genWithdraw2Input(t *rapid.T) interface{} {
	in := &withdraw2Input{Owner: pick(t, "owner", Signers[:3])}
	n := pick(t, "n_providers", []int{2, 1, 3, 4})
	pool := append([]string{}, AllAddrs()...)
	seen := map[string]bool{}
	for i := 0; i < n; i++ {
		a := pick(t, fmt.Sprintf("prov%d", i), pool)
		if seen[a] {
			continue
		}
		seen[a] = true
		e := earnerIn{Addr: a}
		switch pick(t, fmt.Sprintf("earns%d", i), []string{"stake", "point", "both", "nothing"}) {
		case "stake":
			e.Stake = pick(t, "amt_s", []int64{5, 1, 9, 1000000})
		case "point":
			e.Point = pick(t, "amt_p", []int64{3, 1, 7, 1000000})
		case "both":
			e.Stake = pick(t, "amt_s", []int64{5, 1, 9, 1000000})
			e.Point = pick(t, "amt_p", []int64{3, 1, 7, 1000000})
		}
		in.Providers = append(in.Providers, e)
	}
	if pct(t, "other_owner", 50) {
		o := earnerIn{Addr: hx(rep(0x77, 20)), Stake: pick(t, "o_s", []int64{4, 0}), Point: pick(t, "o_p", []int64{6, 0})}
		in.Other = &o
	}
	if pct(t, "withdraw_addr", 40) {
		in.Withdraw = pick(t, "waddr", []string{Signers[3], hx(rep(0x09, 20)), in.Owner})
	}
	in.Target = pick(t, "target", []int{0, -1, 1, 2, 3})
	if in.Target >= len(in.Providers) {
		in.Target = len(in.Providers) - 1
	}
	in.BaseDenom = pick(t, "base_denom", []string{"", "point"})
	return in
}

func coinsOf2(stake, point int64) sdk.Coins {
	c := sdk.NewCoins()
	if stake > 0 {
		c = c.Add(sdk.NewCoin("stake", sdk.NewInt(stake)))
	}
	if point > 0 {
		c = c.Add(sdk.NewCoin("point", sdk.NewInt(point)))
	}
	return c
}

func (w *World) mintCoins(to sdk.AccAddress, coins sdk.Coins) {
	if coins.Empty() {
		return
	}
	if _, err := w.app.BankKeeper.AddCoins(w.ctx, to, coins); err != nil {
		panic(err)
	}
	if w.app.AccountKeeper.GetAccount(w.ctx, to) == nil {
		w.app.AccountKeeper.SetAccount(w.ctx, w.app.AccountKeeper.NewAccountWithAddress(w.ctx, to))
	}
	sup := w.app.BankKeeper.GetSupply(w.ctx)
	sup.Inflate(coins)
	w.app.BankKeeper.SetSupply(w.ctx, sup)
}

func checkWithdraw2(x interface{}) (*Violation, []string, bool) {
	in := x.(*withdraw2Input)
	fail := func(sig, f string, a ...interface{}) (*Violation, []string, bool) {
		return &Violation{Prop: "C13", Msg: fmt.Sprintf(f, a...), Sig: "c13:withdraw2:" + sig}, nil, false
	}
	cfg := defaultConfig()
	cfg.BaseDenom = in.BaseDenom
	w := NewWorld(cfg)
	k, ctx := w.k, w.ctx
	owner := addr(in.Owner)
	escrow := w.app.AccountKeeper.GetModuleAddress(types.RequestAccName)

	earn := map[string]sdk.Coins{}
	total := sdk.NewCoins()
	for _, p := range in.Providers {
		c := coinsOf2(p.Stake, p.Point)
		k.SetOwner(ctx, addr(p.Addr), owner)
		k.SetOwnerProvider(ctx, owner, addr(p.Addr))
		if !c.Empty() {
			k.SetEarnedFees(ctx, addr(p.Addr), c)
		}
		earn[p.Addr] = c
		total = total.Add(c...)
	}
	if !total.Empty() {
		k.SetOwnerEarnedFees(ctx, owner, total)
	}
	w.mintCoins(escrow, total)
	other := addr(Signers[4])
	otherC := sdk.NewCoins()
	if in.Other != nil {
		otherC = coinsOf2(in.Other.Stake, in.Other.Point)
		k.SetOwner(ctx, addr(in.Other.Addr), other)
		k.SetOwnerProvider(ctx, other, addr(in.Other.Addr))
		if !otherC.Empty() {
			k.SetEarnedFees(ctx, addr(in.Other.Addr), otherC)
			k.SetOwnerEarnedFees(ctx, other, otherC)
			w.mintCoins(escrow, otherC)
		}
	}
	recipient := owner
	if in.Withdraw != "" {
		k.SetWithdrawAddress(ctx, owner, addr(in.Withdraw))
		recipient = addr(in.Withdraw)
	}

	var target sdk.AccAddress
	paid := total
	if in.Target >= 0 && in.Target < len(in.Providers) {
		target = addr(in.Providers[in.Target].Addr)
		paid = earn[in.Providers[in.Target].Addr]
	}
	recBefore := w.app.BankKeeper.GetAllBalances(ctx, recipient)
	escBefore := w.app.BankKeeper.GetAllBalances(ctx, escrow)

	// a failing message leaves no trace: run on a branch, keep it only on success
	branch, write := ctx.CacheContext()
	var err error
	if pan := guard(func() { err = k.WithdrawEarnedFees(branch, owner, target) }); pan != "" {
		return fail("panic", "withdrawal panicked: %s", pan)
	}
	classes := []string{"withdraw2"}
	if err != nil {
		// nothing to pay is a legitimate refusal; anything else is not
		if paid.Empty() || total.Empty() {
			return nil, append(classes, "refused_nothing_earned"), false
		}
		return fail("refused", "withdrawal of %q refused: %v", paid, err)
	}
	write()

	recAfter := w.app.BankKeeper.GetAllBalances(ctx, recipient)
	escAfter := w.app.BankKeeper.GetAllBalances(ctx, escrow)
	if got, neg := recAfter.SafeSub(recBefore); neg || !got.IsEqual(paid) {
		return fail("paid", "withdrawal paid %q to %s, the selected earnings are %q", got, short(hx(recipient)), paid)
	}
	if got, neg := escBefore.SafeSub(escAfter); neg || !got.IsEqual(paid) {
		return fail("escrow", "escrow fell by %q, the selected earnings are %q", got, paid)
	}
	// records: exactly the paid ones are reset
	remaining := sdk.NewCoins()
	for _, p := range in.Providers {
		got, _ := k.GetEarnedFees(ctx, addr(p.Addr))
		want := earn[p.Addr]
		if target == nil || p.Addr == in.Providers[in.Target].Addr {
			want = sdk.NewCoins()
		}
		if !got.IsEqual(want) {
			return fail("provider", "after the withdrawal provider %s has %q recorded, expected %q", short(p.Addr), got, want)
		}
		remaining = remaining.Add(want...)
	}
	ownerTotal, _ := k.GetOwnerEarnedFees(ctx, owner)
	if !ownerTotal.IsEqual(remaining) {
		return fail("owner_total", "after the withdrawal the owner's recorded earnings are %q, its providers' earnings sum to %q (before: %q, paid %q)", ownerTotal, remaining, total, paid)
	}
	if in.Other != nil {
		g, _ := k.GetEarnedFees(ctx, addr(in.Other.Addr))
		o, _ := k.GetOwnerEarnedFees(ctx, other)
		if !g.IsEqual(otherC) || !o.IsEqual(otherC) {
			return fail("other", "the withdrawal changed another owner's records: provider %q owner %q, expected %q", g, o, otherC)
		}
	}
	nt := false
	if len(total) == 2 {
		classes = append(classes, "two_denominations")
		nt = true
	}
	if target != nil && !paid.IsEqual(total) && !paid.Empty() {
		classes = append(classes, "partial_withdrawal")
		if len(total) == 2 && len(total.Sub(paid)) < 2 {
			classes = append(classes, "a_denomination_drops_to_zero")
		}
	}
	return nil, classes, nt
}

func init() {
	registerStateless(&StatelessProp{Prop: "C13", Name: "withdraw2", Gen: genWithdraw2Input, New: func() interface{} { return &withdraw2Input{} }, Check: checkWithdraw2})
}
