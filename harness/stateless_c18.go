package harness

import (
	"bytes"
	"encoding/binary"
	"fmt"
	"strings"

	sdk "github.com/cosmos/cosmos-sdk/types"

	"github.com/irismod/service/types"
	"pgregory.net/rapid"
)

// C18 — identifiers and store keys are unambiguous (stateless part).

// ---------------------------------------------------------------------------------------------
// IDs

type idsInput struct {
	Hash1, Hash2       string
	Idx1, Idx2         int64
	Counter1, Counter2 uint64
	Height1, Height2   int64
	Index1, Index2     int16
	SpareCap           int
}

func genHash(t *rapid.T, label string) string {
	switch pick(t, label+"_shape", []int{0, 1, 2, 3}) {
	case 0:
		return hx(rapid.SliceOfN(rapid.Byte(), 32, 32).Draw(t, label))
	case 1:
		return hx(rep(0x00, 32))
	case 2:
		return hx(rep(0xff, 32))
	default:
		b := rep(0xab, 32)
		b[31] = rapid.Byte().Draw(t, label+"_last")
		return hx(b)
	}
}

func genIdsInput(t *rapid.T) interface{} {
	in := &idsInput{}
	in.Hash1 = genHash(t, "hash1")
	if pct(t, "same_hash", 50) {
		in.Hash2 = in.Hash1
	} else {
		in.Hash2 = genHash(t, "hash2")
	}
	i64s := rapid.OneOf(rapid.Int64(), rapid.SampledFrom([]int64{0, 1, -1, 255, 256, 1<<63 - 1, -1 << 63}))
	u64s := rapid.OneOf(rapid.Uint64(), rapid.SampledFrom([]uint64{0, 1, 255, 256, 1 << 63, ^uint64(0)}))
	i16s := rapid.OneOf(rapid.Int16(), rapid.SampledFrom([]int16{0, 1, 9, 255, 256, 32767, -1, -32768}))
	in.Idx1, in.Idx2 = i64s.Draw(t, "idx1"), i64s.Draw(t, "idx2")
	in.Counter1, in.Counter2 = u64s.Draw(t, "c1"), u64s.Draw(t, "c2")
	in.Height1, in.Height2 = i64s.Draw(t, "h1"), i64s.Draw(t, "h2")
	in.Index1, in.Index2 = i16s.Draw(t, "i1"), i16s.Draw(t, "i2")
	if pct(t, "same_tail", 30) {
		in.Counter2, in.Height2 = in.Counter1, in.Height1
	}
	in.SpareCap = pick(t, "spare", []int{0, 8, 32, 64})
	return in
}

func withCap(b []byte, spare int) []byte {
	out := make([]byte, len(b), len(b)+spare)
	copy(out, b)
	return out
}

func checkIds(x interface{}) (*Violation, []string, bool) {
	in := x.(*idsInput)
	fail := func(sig, f string, a ...interface{}) (*Violation, []string, bool) {
		return &Violation{Prop: "C18", Msg: fmt.Sprintf(f, a...), Sig: "c18:ids:" + sig}, nil, false
	}
	h1, h2 := unhx(in.Hash1), unhx(in.Hash2)
	buf := withCap(h1, in.SpareCap)
	id1 := types.GenerateRequestContextID(buf, in.Idx1)
	if len(id1) != types.ContextIDLen {
		return fail("ctxlen", "context ID has length %d", len(id1))
	}
	gh, gi, err := types.SplitRequestContextID(id1)
	if err != nil || !bytes.Equal(gh, h1) || gi != in.Idx1 {
		return fail("ctxsplit", "context ID of (%s,%d) splits to (%x,%d,%v)", in.Hash1, in.Idx1, []byte(gh), gi, err)
	}
	// a second ID built from the same hash slice (next message of the same tx) must not disturb the first
	id1b := types.GenerateRequestContextID(buf, in.Idx2)
	gh, gi, _ = types.SplitRequestContextID(id1)
	if !bytes.Equal(gh, h1) || gi != in.Idx1 {
		return fail("ctxalias", "context ID of (%s,%d) changed to index %d after building the ID of index %d from the same hash slice (spare capacity %d)",
			in.Hash1, in.Idx1, gi, in.Idx2, in.SpareCap)
	}
	if !bytes.Equal(buf[:32], h1) {
		return fail("ctxalias", "building a context ID modified the caller's hash")
	}
	_ = id1b
	id2 := types.GenerateRequestContextID(withCap(h2, 0), in.Idx2)
	sameCtx := in.Hash1 == in.Hash2 && in.Idx1 == in.Idx2
	if bytes.Equal(id1, id2) != sameCtx {
		return fail("ctxinj", "context IDs of (%s,%d) and (%s,%d): equal=%v", in.Hash1, in.Idx1, in.Hash2, in.Idx2, bytes.Equal(id1, id2))
	}
	cbuf := withCap(id1, in.SpareCap)
	r1 := types.GenerateRequestID(cbuf, in.Counter1, in.Height1, in.Index1)
	if len(r1) != types.RequestIDLen {
		return fail("reqlen", "request ID has length %d", len(r1))
	}
	r1b := types.GenerateRequestID(cbuf, in.Counter2, in.Height2, in.Index2)
	_ = r1b
	c, bc, hh, ix, err := types.SplitRequestID(r1)
	if err != nil || !bytes.Equal(c, id1) || bc != in.Counter1 || hh != in.Height1 || ix != in.Index1 {
		return fail("reqsplit", "request ID of (%x,%d,%d,%d) splits to (%x,%d,%d,%d,%v)", []byte(id1), in.Counter1, in.Height1, in.Index1, []byte(c), bc, hh, ix, err)
	}
	conv, err := types.ConvertRequestID(strings.ToUpper(hx(r1)))
	if err != nil || !bytes.Equal(conv, r1) {
		return fail("reqconv", "request ID does not survive its hex form: %v", err)
	}
	r2 := types.GenerateRequestID(id2, in.Counter2, in.Height2, in.Index2)
	sameReq := sameCtx && in.Counter1 == in.Counter2 && in.Height1 == in.Height2 && in.Index1 == in.Index2
	if bytes.Equal(r1, r2) != sameReq {
		return fail("reqinj", "request IDs equal=%v for inputs equal=%v", bytes.Equal(r1, r2), sameReq)
	}
	// ordering by ID within a batch follows the index (clients rely on position)
	classes := []string{"ids"}
	if in.SpareCap > 0 {
		classes = append(classes, "ids_spare_capacity")
	}
	if in.Hash1 == in.Hash2 && in.Idx1 != in.Idx2 {
		classes = append(classes, "ids_same_tx_other_msg")
	}
	nt := in.Idx1 != 0 || in.Counter1 > 1 || in.Index1 != 0
	return nil, classes, nt
}

// ---------------------------------------------------------------------------------------------
// logical records and their keys

type LRec struct {
	Kind    string `json:"kind"`
	Name    string `json:"name,omitempty"`
	A       string `json:"a,omitempty"` // hex
	B       string `json:"b,omitempty"` // hex
	Ctx     string `json:"ctx,omitempty"`
	Counter uint64 `json:"counter,omitempty"`
	H       int64  `json:"h,omitempty"`
	Index   int16  `json:"index,omitempty"`
	Denom   string `json:"denom,omitempty"` // earned / ownearn: the denomination of the record ("" = stake)
}

// denom of an earnings record: one of the two tokens of the harness world
func (r LRec) denom() string {
	if r.Denom == "" {
		return "stake"
	}
	return r.Denom
}

var lrecKinds = []string{"def", "bind", "ownbind", "owner", "ownprov", "pricing", "withdraw", "ctx", "expq", "newq", "exph", "newh",
	"req", "active", "activeid", "resp", "vol", "earned", "ownearn"}

func (r LRec) reqID() []byte {
	return types.GenerateRequestID(unhx(r.Ctx), r.Counter, r.H, r.Index)
}

func (r LRec) Key() []byte {
	switch r.Kind {
	case "def":
		return types.GetServiceDefinitionKey(r.Name)
	case "bind":
		return types.GetServiceBindingKey(r.Name, addr(r.A))
	case "ownbind":
		return types.GetOwnerServiceBindingKey(addr(r.A), r.Name, addr(r.B))
	case "owner":
		return types.GetOwnerKey(addr(r.A))
	case "ownprov":
		return types.GetOwnerProviderKey(addr(r.A), addr(r.B))
	case "pricing":
		return types.GetPricingKey(r.Name, addr(r.A))
	case "withdraw":
		return types.GetWithdrawAddrKey(addr(r.A))
	case "ctx":
		return types.GetRequestContextKey(unhx(r.Ctx))
	case "expq":
		return types.GetExpiredRequestBatchKey(unhx(r.Ctx), r.H)
	case "newq":
		return types.GetNewRequestBatchKey(unhx(r.Ctx), r.H)
	case "exph":
		return types.GetExpiredRequestBatchHeightKey(unhx(r.Ctx))
	case "newh":
		return types.GetNewRequestBatchHeightKey(unhx(r.Ctx))
	case "req":
		return types.GetRequestKey(r.reqID())
	case "active":
		return types.GetActiveRequestKey(r.Name, addr(r.A), r.H+7, r.reqID())
	case "activeid":
		return types.GetActiveRequestKeyByID(r.reqID())
	case "resp":
		return types.GetResponseKey(r.reqID())
	case "vol":
		return types.GetRequestVolumeKey(addr(r.A), r.Name, addr(r.B))
	case "earned":
		return types.GetEarnedFeesKey(addr(r.A), r.denom())
	case "ownearn":
		return types.GetOwnerEarnedFeesKey(addr(r.A), r.denom())
	}
	panic("unknown record kind " + r.Kind)
}

// canon: the logical identity of the record (only the fields its kind uses)
func (r LRec) canon() string {
	switch r.Kind {
	case "def":
		return r.Kind + "|" + r.Name
	case "bind", "pricing":
		return r.Kind + "|" + r.Name + "|" + r.A
	case "ownbind", "vol":
		return r.Kind + "|" + r.A + "|" + r.Name + "|" + r.B
	case "owner", "withdraw":
		return r.Kind + "|" + r.A
	case "earned", "ownearn":
		return r.Kind + "|" + r.A + "|" + r.denom()
	case "ownprov":
		return r.Kind + "|" + r.A + "|" + r.B
	case "ctx", "exph", "newh":
		return r.Kind + "|" + r.Ctx
	case "expq", "newq":
		return fmt.Sprintf("%s|%s|%d", r.Kind, r.Ctx, r.H)
	case "req", "activeid", "resp":
		return fmt.Sprintf("%s|%s|%d|%d|%d", r.Kind, r.Ctx, r.Counter, r.H, r.Index)
	case "active":
		return fmt.Sprintf("%s|%s|%s|%s|%d|%d|%d", r.Kind, r.Name, r.A, r.Ctx, r.Counter, r.H, r.Index)
	}
	return r.Kind
}

var namePool = []string{"a", "ab", "ab-c", "svc", "a_", "a0", "A", "abc", "a-"}

func genName(t *rapid.T, label string) string {
	if pct(t, label+"_rand", 25) {
		return rapid.StringMatching(`[a-zA-Z][a-zA-Z0-9_-]{0,8}`).Draw(t, label)
	}
	return pick(t, label, namePool)
}

func genAnyAddr(t *rapid.T, label string) string {
	if pct(t, label+"_rand", 30) {
		n := pick(t, label+"_len", []int{1, 2, 19, 20, 21, 25, 32})
		return hx(rapid.SliceOfN(rapid.Byte(), n, n).Draw(t, label))
	}
	base := pick(t, label, append(AllAddrs(), hx([]byte("stake")), hx(append(rep(0xa0, 20), []byte("stake")...)), hx(rep(0xa0, 15))))
	return base
}

func gen20(t *rapid.T, label string) string {
	if pct(t, label+"_rand", 20) {
		return hx(rapid.SliceOfN(rapid.Byte(), 20, 20).Draw(t, label))
	}
	return pick(t, label, Signers)
}

func genCtxID(t *rapid.T, label string) string {
	pool := []string{hx(rep(0x11, 40)), hx(append(rep(0x11, 39), 0x12)), hx(rep(0x00, 40)), hx(rep(0xff, 40))}
	if pct(t, label+"_rand", 25) {
		return hx(rapid.SliceOfN(rapid.Byte(), 40, 40).Draw(t, label))
	}
	return pick(t, label, pool)
}

func genLRec(t *rapid.T, label string, kind string) LRec {
	r := LRec{Kind: kind}
	switch kind {
	case "def":
		r.Name = genName(t, label+"n")
	case "bind", "pricing":
		r.Name, r.A = genName(t, label+"n"), genAnyAddr(t, label+"a")
	case "ownbind", "vol":
		r.A, r.Name, r.B = gen20(t, label+"a"), genName(t, label+"n"), genAnyAddr(t, label+"b")
	case "owner":
		r.A = genAnyAddr(t, label+"a")
	case "earned":
		r.A = genAnyAddr(t, label+"a")
		r.Denom = pick(t, label+"d", []string{"", "point"})
	case "withdraw":
		r.A = gen20(t, label+"a")
	case "ownearn":
		r.A = gen20(t, label+"a")
		r.Denom = pick(t, label+"d", []string{"", "point"})
	case "ownprov":
		r.A, r.B = gen20(t, label+"a"), genAnyAddr(t, label+"b")
	case "ctx", "exph", "newh":
		r.Ctx = genCtxID(t, label+"c")
	case "expq", "newq":
		r.Ctx = genCtxID(t, label+"c")
		r.H = pick(t, label+"h", []int64{1, 2, 255, 256, 257, 65536, 1 << 40})
	case "req", "activeid", "resp", "active":
		r.Ctx = genCtxID(t, label+"c")
		r.Counter = pick(t, label+"k", []uint64{1, 2, 255, 256, 257, 1 << 32})
		r.H = pick(t, label+"h", []int64{1, 2, 255, 256, 257})
		r.Index = pick(t, label+"i", []int16{0, 1, 2, 9})
		if kind == "active" {
			r.Name, r.A = genName(t, label+"n"), genAnyAddr(t, label+"a")
		}
	}
	return r
}

type keysInput struct {
	R1, R2 LRec
}

func genKeysInput(t *rapid.T) interface{} {
	k1 := pick(t, "kind1", lrecKinds)
	k2 := k1
	if pct(t, "other_kind", 30) {
		k2 = pick(t, "kind2", lrecKinds)
	}
	in := &keysInput{R1: genLRec(t, "r1", k1), R2: genLRec(t, "r2", k2)}
	if k1 == k2 && pct(t, "one_field_apart", 60) {
		// the second record is the first with exactly one component drawn afresh: collisions caused by a
		// component that does not reach the key show up at once
		fresh := genLRec(t, "r2b", k1)
		r := in.R1
		switch pick(t, "field", []string{"ctx", "name", "a", "b", "counter", "h", "index", "denom"}) {
		case "denom":
			r.Denom = fresh.Denom
		case "ctx":
			r.Ctx = fresh.Ctx
		case "name":
			r.Name = fresh.Name
		case "a":
			r.A = fresh.A
		case "b":
			r.B = fresh.B
		case "counter":
			r.Counter = fresh.Counter
		case "h":
			r.H = fresh.H
		case "index":
			r.Index = fresh.Index
		}
		in.R2 = r
	}
	if k1 == k2 && (k1 == "bind" || k1 == "pricing" || k1 == "active") && pct(t, "byte_moved_between_fields", 12) {
		// the same bytes split differently between two neighbouring fields: ("a", "b"+P) and ("ab", P).
		// Only a separator (or a length) between the fields keeps the two keys apart.
		letter := pick(t, "moved_letter", []string{"b", "c", "Z", "0", "-"})
		in.R1.A = hx([]byte(letter)) + in.R1.A
		r := in.R1
		r.Name, r.A = in.R1.Name+letter, in.R1.A[2:]
		in.R2 = r
	}
	return in
}

func checkKeys(x interface{}) (*Violation, []string, bool) {
	in := x.(*keysInput)
	k1, k2 := in.R1.Key(), in.R2.Key()
	same := in.R1.canon() == in.R2.canon()
	if bytes.Equal(k1, k2) != same {
		return &Violation{Prop: "C18", Sig: "c18:keys:" + in.R1.Kind,
			Msg: fmt.Sprintf("records %s and %s: keys equal=%v (%x / %x)", in.R1.canon(), in.R2.canon(), bytes.Equal(k1, k2), k1, k2)}, nil, false
	}
	classes := []string{"keys:" + in.R1.Kind}
	nt := !same && in.R1.Kind == in.R2.Kind
	if nt && (strings.HasPrefix(in.R1.Name, in.R2.Name) || strings.HasPrefix(in.R1.A, in.R2.A) || strings.HasPrefix(in.R2.A, in.R1.A)) {
		classes = append(classes, "keys_prefix_related_pair")
	}
	return nil, classes, nt
}

// ---------------------------------------------------------------------------------------------
// prefix scans return exactly the records of their subject

type scanInput struct {
	Scan    string `json:"scan"`
	Subject LRec   `json:"subject"`
	Pop     []LRec `json:"population"`
	// provider_earnings_keeper only: earnings exist in a second denomination as well (as after a
	// governance change of the base denomination), and the base denomination in force
	TwoDenoms bool   `json:"two_denoms,omitempty"`
	BaseDenom string `json:"base_denom,omitempty"`
}

type scanDef struct {
	kind   string
	prefix func(s LRec) []byte
	match  func(s, r LRec) bool
}

var scanDefs = map[string]scanDef{
	"bindings_of_service": {"bind", func(s LRec) []byte { return types.GetBindingsSubspace(s.Name) },
		func(s, r LRec) bool { return r.Name == s.Name }},
	"bindings_of_owner_and_service": {"ownbind", func(s LRec) []byte { return types.GetOwnerBindingsSubspace(addr(s.A), s.Name) },
		func(s, r LRec) bool { return r.A == s.A && r.Name == s.Name }},
	"providers_of_owner": {"ownprov", func(s LRec) []byte { return types.GetOwnerProvidersSubspace(addr(s.A)) },
		func(s, r LRec) bool { return r.A == s.A }},
	"expiries_at_height": {"expq", func(s LRec) []byte { return types.GetExpiredRequestBatchSubspace(s.H) },
		func(s, r LRec) bool { return r.H == s.H }},
	"new_batches_at_height": {"newq", func(s LRec) []byte { return types.GetNewRequestBatchSubspace(s.H) },
		func(s, r LRec) bool { return r.H == s.H }},
	"requests_of_batch": {"req", func(s LRec) []byte { return types.GetRequestSubspaceByReqCtx(unhx(s.Ctx), s.Counter) },
		func(s, r LRec) bool { return r.Ctx == s.Ctx && r.Counter == s.Counter }},
	"responses_of_batch": {"resp", func(s LRec) []byte { return types.GetResponseSubspaceByReqCtx(unhx(s.Ctx), s.Counter) },
		func(s, r LRec) bool { return r.Ctx == s.Ctx && r.Counter == s.Counter }},
	"pending_of_batch": {"activeid", func(s LRec) []byte { return types.GetActiveRequestSubspaceByReqCtx(unhx(s.Ctx), s.Counter) },
		func(s, r LRec) bool { return r.Ctx == s.Ctx && r.Counter == s.Counter }},
	"pending_of_binding": {"active", func(s LRec) []byte { return types.GetActiveRequestSubspace(s.Name, addr(s.A)) },
		func(s, r LRec) bool { return r.Name == s.Name && r.A == s.A }},
	"owner_earnings": {"ownearn", func(s LRec) []byte { return types.GetOwnerEarnedFeesSubspace(addr(s.A)) },
		func(s, r LRec) bool { return r.A == s.A }},
	// provider earnings are scanned by the keeper, which post-filters: checked through the keeper
	"provider_earnings_keeper": {"earned", nil, func(s, r LRec) bool { return r.A == s.A }},
	// the same through the keeper for an owner's total (20-byte addresses), in one or two denominations
	"owner_earnings_keeper": {"ownearn", nil, func(s, r LRec) bool { return r.A == s.A }},
	// the by-owner listing decodes (service, provider) from the scanned index keys: through the keeper as well
	"owner_bindings_keeper": {"ownbind", nil, func(s, r LRec) bool { return r.A == s.A && r.Name == s.Name }},
}

func genScanInput(t *rapid.T) interface{} {
	name := pick(t, "scan", sortedKeys(scanDefs))
	def := scanDefs[name]
	in := &scanInput{Scan: name, Subject: genLRec(t, "subj", def.kind)}
	n := pick(t, "pop_n", []int{3, 6, 10})
	for i := 0; i < n; i++ {
		in.Pop = append(in.Pop, genLRec(t, fmt.Sprintf("p%d", i), def.kind))
	}
	if pct(t, "subject_in_pop", 70) {
		in.Pop = append(in.Pop, in.Subject)
	}
	if (name == "provider_earnings_keeper" || name == "owner_earnings_keeper") && pct(t, "two_denoms", 50) {
		in.TwoDenoms = true
		in.BaseDenom = pick(t, "scan_base_denom", []string{"", "point"})
	}
	return in
}

func checkScan(x interface{}) (*Violation, []string, bool) {
	in := x.(*scanInput)
	def := scanDefs[in.Scan]
	want, got := map[string]bool{}, map[string]bool{}
	seen := map[string]bool{}
	var pop []LRec
	for _, r := range in.Pop {
		if !seen[r.canon()] {
			seen[r.canon()] = true
			pop = append(pop, r)
		}
	}
	for _, r := range pop {
		if def.match(in.Subject, r) {
			want[r.canon()] = true
		}
	}
	if def.prefix != nil {
		p := def.prefix(in.Subject)
		for _, r := range pop {
			if bytes.HasPrefix(r.Key(), p) {
				got[r.canon()] = true
			}
		}
	} else if in.Scan == "owner_bindings_keeper" {
		w := NewWorld(defaultConfig())
		// a binding exists once per (service, provider) and has one owner: drop population records that contradict that
		seenSP := map[string]bool{}
		var uniq []LRec
		for _, r := range pop {
			if k := r.Name + "|" + r.B; !seenSP[k] {
				seenSP[k] = true
				uniq = append(uniq, r)
			}
		}
		pop = uniq
		want = map[string]bool{}
		for _, r := range pop {
			if def.match(in.Subject, r) {
				want[r.canon()] = true
			}
		}
		for _, r := range pop {
			b := types.ServiceBinding{ServiceName: r.Name, Provider: addr(r.B), Owner: addr(r.A), Pricing: `{"price":"1stake"}`, QoS: 1, Options: "{}"}
			w.k.SetServiceBinding(w.ctx, b)
			w.k.SetOwnerServiceBinding(w.ctx, b)
		}
		var listed []*types.ServiceBinding
		if pan := guard(func() { listed = w.k.GetOwnerServiceBindings(w.ctx, addr(in.Subject.A), in.Subject.Name) }); pan != "" {
			return &Violation{Prop: "C18", Sig: "c18:scan:" + in.Scan, Msg: fmt.Sprintf("listing the bindings of owner %s and service %q panicked: %s", in.Subject.A, in.Subject.Name, pan)}, nil, false
		}
		for _, b := range listed {
			got[LRec{Kind: "ownbind", A: hx(b.Owner), Name: b.ServiceName, B: hx(b.Provider)}.canon()] = true
		}
	} else {
		// keeper-level: provider earnings (one population record per provider: the amounts are set per provider)
		seenA := map[string]bool{}
		var uniq []LRec
		for _, r := range pop {
			if !seenA[r.A] {
				seenA[r.A] = true
				uniq = append(uniq, r)
			}
		}
		pop = uniq
		cfg := defaultConfig()
		cfg.BaseDenom = in.BaseDenom
		w := NewWorld(cfg)
		earn := func(i int) sdk.Coins {
			c := sdk.NewCoins(sdk.NewCoin("stake", sdk.NewInt(int64(1)<<uint(i%40))))
			if in.TwoDenoms && i%2 == 1 {
				c = c.Add(sdk.NewCoin("point", sdk.NewInt(3*(int64(1)<<uint(i%20)))))
			}
			return c
		}
		who := "provider"
		set, get, del := w.k.SetEarnedFees, w.k.GetEarnedFees, w.k.DeleteEarnedFees
		if in.Scan == "owner_earnings_keeper" {
			who = "owner"
			set, get, del = w.k.SetOwnerEarnedFees, w.k.GetOwnerEarnedFees, w.k.DeleteOwnerEarnedFees
		}
		for i, r := range pop {
			set(w.ctx, addr(r.A), earn(i))
		}
		fees, _ := get(w.ctx, addr(in.Subject.A))
		wantC := sdk.NewCoins()
		for i, r := range pop {
			if r.A == in.Subject.A {
				wantC = wantC.Add(earn(i)...)
			}
		}
		if !fees.IsEqual(wantC) {
			return &Violation{Prop: "C18", Sig: "c18:scan:" + in.Scan,
				Msg: fmt.Sprintf("earned fees of %s %s read as %q, its own records hold %q (population %d, base denomination %q)", who, in.Subject.A, fees, wantC, len(pop), cfg.baseDenom())}, nil, false
		}
		del(w.ctx, addr(in.Subject.A))
		if left, _ := get(w.ctx, addr(in.Subject.A)); !left.IsZero() {
			return &Violation{Prop: "C18", Sig: "c18:scan:" + in.Scan,
				Msg: fmt.Sprintf("deleting the earnings of %s %s left %q behind", who, in.Subject.A, left)}, nil, false
		}
		for i, r := range pop {
			if r.A == in.Subject.A {
				continue
			}
			f, _ := get(w.ctx, addr(r.A))
			if !f.IsEqual(earn(i)) {
				return &Violation{Prop: "C18", Sig: "c18:scan:" + in.Scan,
					Msg: fmt.Sprintf("deleting the earnings of %s %s changed those of %s", who, in.Subject.A, r.A)}, nil, false
			}
		}
		got = want
	}
	if fmt.Sprint(sortedKeys(got)) != fmt.Sprint(sortedKeys(want)) {
		return &Violation{Prop: "C18", Sig: "c18:scan:" + in.Scan,
			Msg: fmt.Sprintf("scan %s for %s returns %v, records of the subject are %v", in.Scan, in.Subject.canon(), sortedKeys(got), sortedKeys(want))}, nil, false
	}
	classes := []string{"scan:" + in.Scan}
	nt := len(want) > 0 && len(want) < len(pop)
	for _, r := range pop {
		if !def.match(in.Subject, r) && (r.Name != in.Subject.Name && (strings.HasPrefix(r.Name, in.Subject.Name) && in.Subject.Name != "") ||
			(r.A != in.Subject.A && in.Subject.A != "" && strings.HasPrefix(r.A, in.Subject.A))) {
			classes = append(classes, "scan_with_prefix_related_neighbour")
			break
		}
	}
	return nil, classes, nt
}

func defaultConfig() Config {
	return Config{Tax: "0.1", Slash: "0.001", MaxTimeout: 100, MinDeposit: i64(6000), Multiple: 200, ArbitrationNs: 5e9, ComplaintNs: 5e9,
		Funding: map[string]int64{}}
}

func init() {
	registerStateless(&StatelessProp{Prop: "C18", Name: "ids", Gen: genIdsInput, New: func() interface{} { return &idsInput{} }, Check: checkIds})
	registerStateless(&StatelessProp{Prop: "C18", Name: "keys", Gen: genKeysInput, New: func() interface{} { return &keysInput{} }, Check: checkKeys})
	registerStateless(&StatelessProp{Prop: "C18", Name: "scans", Gen: genScanInput, New: func() interface{} { return &scanInput{} }, Check: checkScan})
}

var _ = binary.BigEndian
