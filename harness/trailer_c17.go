package harness

import (
	"encoding/json"

	"pgregory.net/rapid"
)

func init() {
	probeGens["C17"] = func(t *rapid.T, g *GenState) string {
		bz, _ := json.Marshal(GenQueries(t, g))
		return string(bz)
	}
	probes["C17"] = func(ex *Exec, payload string) []Violation {
		var qs []Query
		if err := json.Unmarshal([]byte(payload), &qs); err != nil {
			return nil
		}
		return runQueries(ex, qs)
	}
	trailers["C17"] = func(t *rapid.T, ex *Exec, g *GenState) ([]Violation, string) {
		qs := GenQueries(t, g)
		bz, _ := json.Marshal(qs)
		return runQueries(ex, qs), string(bz)
	}
	replayTrailers["C17"] = func(ex *Exec, extra string) []Violation {
		var qs []Query
		if err := json.Unmarshal([]byte(extra), &qs); err != nil {
			return nil
		}
		return runQueries(ex, qs)
	}
}

func runQueries(ex *Exec, qs []Query) []Violation {
	qc := newQueryChecker(ex.W)
	for _, q := range qs {
		qc.Check(q)
	}
	p := ex.O.(*passive)
	for k, v := range qc.cls {
		p.cls[k] += v
	}
	s := qc.s
	svcs := map[string]bool{}
	for _, b := range s.Binds {
		svcs[b.ServiceName] = true
	}
	if len(svcs) >= 2 {
		p.hit("state:two_services_bound")
	}
	if len(s.Resps) > 0 && len(s.ActiveID) > 0 {
		p.hit("state:batch_in_flight_with_response")
	}
	if len(s.Earned) > 0 {
		p.hit("state:earnings")
	}
	hits := 0
	for k := range qc.cls {
		if len(k) > 4 && k[:4] == "hit:" {
			hits++
		}
	}
	// non-trivial: a populated state and at least 4 query kinds that returned stored records
	p.nt = len(s.Binds) > 0 && len(s.Ctxs) > 0 && hits >= 4
	return qc.vs
}
