package harness

import (
	"unicode/utf8"
	"fmt"
	"sort"

	service "github.com/irismod/service"
	"github.com/irismod/service/keeper"
	"github.com/irismod/service/types"
	"pgregory.net/rapid"

	authtypes "github.com/cosmos/cosmos-sdk/x/auth/types"
)

// C19 — state survives export and re-import; zero-height export returns all escrow.

func init() {
	probeGens["C19"] = func(t *rapid.T, g *GenState) string { return "export" }
	probes["C19"] = func(ex *Exec, payload string) []Violation {
		ex.O.(*passive).hit("mid_history_export_point")
		return exportImport(ex)
	}
	trailers["C19"] = func(t *rapid.T, ex *Exec, g *GenState) ([]Violation, string) {
		return exportImport(ex), "export"
	}
	replayTrailers["C19"] = func(ex *Exec, extra string) []Violation { return exportImport(ex) }
}

func guard(f func()) (panicked string) {
	defer func() {
		if r := recover(); r != nil {
			panicked = fmt.Sprint(r)
		}
	}()
	f()
	return ""
}

func exportImport(ex *Exec) []Violation {
	w := ex.W
	p := ex.O.(*passive)
	var vs []Violation
	fail := func(sig, f string, a ...interface{}) {
		vs = append(vs, Violation{Prop: "C19", Msg: fmt.Sprintf(f, a...), Sig: "c19:" + sig})
	}
	pre := w.Snapshot()
	// classification of the export point
	states := map[string]bool{}
	for _, rc := range pre.Ctxs {
		states[stateName(rc.State)] = true
	}
	var pendingFees, earned int64
	for id := range pre.ActiveID {
		pendingFees += stakeOf(pre.Reqs[id].ServiceFee)
	}
	for _, e := range pre.Earned {
		earned += e.Amount
	}
	if len(pre.Withdraw) > 0 {
		p.hit("withdraw_address_set")
	}
	if pendingFees > 0 {
		p.hit("pending_paid_request")
	}
	if earned > 0 {
		p.hit("unwithdrawn_earnings")
	}
	if len(states) >= 2 {
		p.hit("contexts_in_two_states")
	}
	if len(pre.Ctxs) > 0 {
		p.hit("contexts")
	}
	if len(pre.Binds) > 0 {
		p.hit("bindings")
	}
	if non20ByteProvider(pre) {
		p.hit("state_has_non_20_byte_provider")
	}
	p.nt = (len(pre.Withdraw) > 0 || len(pre.Ctxs) > 0) && len(pre.Binds) > 0 && (pendingFees > 0 || earned > 0 || len(states) >= 2)

	// 1. preparation for a zero-height export
	if pan := guard(func() { service.PrepForZeroHeightGenesis(w.ctx, w.k) }); pan != "" {
		fail("prep_panic", "zero-height preparation panicked: %s", pan)
		return vs
	}
	post := w.Snapshot()
	denoms := []string{"stake"}
	if w.cfg.FundingPoint != nil {
		denoms = append(denoms, "point") // the cases in which accounts hold a second coin
	}
	for _, denom := range denoms {
		want := map[string]int64{}
		for id := range pre.ActiveID {
			rq, ok := pre.Reqs[id]
			if !ok {
				continue
			}
			fee := amtIn(rq.ServiceFee, denom)
			if rc, ok := pre.Ctxs[hx(rq.RequestContextId)]; ok && fee != 0 {
				want[hx(rc.Consumer)] += fee
				want[w.RequestAcc] -= fee
			}
		}
		for _, e := range pre.Earned {
			if e.Amount != 0 && e.Denom == denom {
				want[e.Provider] += e.Amount
				want[w.RequestAcc] -= e.Amount
			}
		}
		for k, v := range want {
			if v == 0 {
				delete(want, k)
			}
		}
		got := balanceDiffIn(pre, post, denom)
		for _, a := range sortedAddrs(got, want) {
			if got[a] != want[a] {
				fail("prep_refund", "zero-height preparation moved %d %s to/from %s, expected %d (pending fees return to consumers, earnings go to their providers)", got[a], denom, a, want[a])
				break
			}
		}
		if post.balIn(denom)[w.RequestAcc] != 0 {
			fail("prep_escrow", "request escrow holds %d %s after zero-height preparation", post.balIn(denom)[w.RequestAcc], denom)
		}
	}
	for _, cid := range sortedKeys(post.Ctxs) {
		rc := post.Ctxs[cid]
		if rc.State != stPaused || rc.BatchState != types.BATCHCOMPLETED || rc.BatchRequestCount != 0 || rc.BatchResponseCount != 0 {
			fail("prep_contexts", "context %s after preparation: state %s, batch state %s, counts %d/%d", short(cid), stateName(rc.State), rc.BatchState, rc.BatchRequestCount, rc.BatchResponseCount)
			break
		}
		// state survives: apart from the documented reset nothing of the context changes
		want, ok := pre.Ctxs[cid]
		if !ok {
			fail("prep_contexts", "context %s appeared during preparation", short(cid))
			break
		}
		want.State, want.BatchState, want.BatchRequestCount, want.BatchResponseCount = stPaused, types.BATCHCOMPLETED, 0, 0
		if string(w.app.AppCodec().MustMarshalBinaryBare(&want)) != string(w.app.AppCodec().MustMarshalBinaryBare(&rc)) {
			fail("prep_contexts_changed", "preparation changed context %s beyond pausing it and clearing its batch: before %v, after %v", short(cid), want, rc)
			break
		}
	}
	if len(post.Ctxs) != len(pre.Ctxs) {
		fail("prep_contexts", "preparation changed the number of contexts from %d to %d", len(pre.Ctxs), len(post.Ctxs))
	}
	if fmt.Sprint(sortedKeys(pre.Binds)) != fmt.Sprint(sortedKeys(post.Binds)) || fmt.Sprint(sortedKeys(pre.Defs)) != fmt.Sprint(sortedKeys(post.Defs)) {
		fail("prep_content", "preparation changed the set of definitions or bindings")
	}
	for _, bk := range sortedKeys(pre.Binds) {
		a, b := pre.Binds[bk], post.Binds[bk]
		if string(w.app.AppCodec().MustMarshalBinaryBare(&a)) != string(w.app.AppCodec().MustMarshalBinaryBare(&b)) {
			fail("prep_content", "preparation changed binding %s", bk)
		}
	}
	if len(vs) > 0 {
		return vs
	}
	// 2. export, validate, JSON round trip
	var gs *types.GenesisState
	if pan := guard(func() { gs = service.ExportGenesis(w.ctx, w.k) }); pan != "" {
		fail("export_panic", "export panicked: %s", pan)
		return vs
	}
	if err := types.ValidateGenesis(*gs); err != nil {
		fail("validate", "exported genesis fails genesis validation: %v", err)
		return vs
	}
	cdc := w.app.AppCodec()
	var bz []byte
	var err error
	if pan := guard(func() { bz, err = cdc.MarshalJSON(gs) }); pan != "" || err != nil {
		fail("json_write", "exported genesis cannot be written as JSON: %v %s", err, pan)
		return vs
	}
	var gs2 types.GenesisState
	if pan := guard(func() { err = cdc.UnmarshalJSON(bz, &gs2) }); pan != "" || err != nil {
		sig := "json_read"
		if non20ByteProvider(post) {
			sig = "json_read:state-has-non-20-byte-provider"
		}
		fail(sig, "exported genesis JSON cannot be read back: %v %s", err, pan)
		return vs
	}
	bz2, err := cdc.MarshalJSON(&gs2)
	if err != nil || string(bz2) != string(bz) {
		sig := "json_roundtrip"
		if invalidUTF8Text(post) {
			sig = "json_roundtrip:state-has-invalid-utf8-text"
		}
		fail(sig, "genesis changes in a JSON round trip (err %v)", err)
		return vs
	}
	// 3. import into a fresh chain, export again
	fw := NewBareWorld()
	if pan := guard(func() { service.InitGenesis(fw.ctx, fw.k, gs2) }); pan != "" {
		fail("import_panic", "importing the exported genesis panicked: %s", pan)
		return vs
	}
	var gs3 *types.GenesisState
	if pan := guard(func() { gs3 = service.ExportGenesis(fw.ctx, fw.k) }); pan != "" {
		fail("reexport_panic", "re-export panicked: %s", pan)
		return vs
	}
	bz3, err := cdc.MarshalJSON(gs3)
	if err != nil || string(bz3) != string(bz) {
		fail("reexport", "genesis exported after import differs from the imported one (err %v):\n first %s\nsecond %s", err, trunc(string(bz), 600), trunc(string(bz3), 600))
		return vs
	}
	// explicit field-wise comparison as well (guards against a lossy JSON form)
	if len(gs3.Definitions) != len(pre.Defs) || len(gs3.Bindings) != len(pre.Binds) || len(gs3.WithdrawAddresses) != len(pre.Withdraw) || len(gs3.RequestContexts) != len(pre.Ctxs) {
		fail("reexport_counts", "re-exported genesis has %d definitions, %d bindings, %d withdrawal addresses, %d contexts; state had %d, %d, %d, %d",
			len(gs3.Definitions), len(gs3.Bindings), len(gs3.WithdrawAddresses), len(gs3.RequestContexts), len(pre.Defs), len(pre.Binds), len(pre.Withdraw), len(pre.Ctxs))
	}
	// 4. imported store: price terms and ownership indexes rebuilt
	fs := fw.Snapshot()
	for _, m := range checkBindingIndexes(fs) {
		fail("import_indexes", "imported store: %s", m)
	}
	if fmt.Sprint(sortedKeys(fs.Binds)) != fmt.Sprint(sortedKeys(post.Binds)) || fmt.Sprint(sortedKeys(fs.Defs)) != fmt.Sprint(sortedKeys(post.Defs)) {
		fail("import_content", "imported store holds other definitions/bindings than the exporting one")
	}
	for _, bk := range sortedKeys(post.Binds) {
		a, b := post.Binds[bk], fs.Binds[bk]
		if string(cdc.MustMarshalBinaryBare(&a)) != string(cdc.MustMarshalBinaryBare(&b)) {
			fail("import_content", "binding %s differs after import", bk)
		}
	}
	for _, dk := range sortedKeys(post.Defs) {
		a, b := post.Defs[dk], fs.Defs[dk]
		if string(cdc.MustMarshalBinaryBare(&a)) != string(cdc.MustMarshalBinaryBare(&b)) {
			sig := "import_content"
			if invalidUTF8Text(post) {
				sig = "import_content:state-has-invalid-utf8-text"
			}
			fail(sig, "definition %q differs after import: %q vs %q", dk, a.Description, b.Description)
		}
	}
	for _, cid := range sortedKeys(post.Ctxs) {
		a, b := post.Ctxs[cid], fs.Ctxs[cid]
		if string(cdc.MustMarshalBinaryBare(&a)) != string(cdc.MustMarshalBinaryBare(&b)) {
			fail("import_content", "context %s differs after import", short(cid))
		}
	}
	for _, ow := range sortedKeys(post.Withdraw) {
		if fs.Withdraw[ow] != post.Withdraw[ow] {
			fail("import_content", "withdrawal address of %s differs after import: %s vs %s", short(ow), fs.Withdraw[ow], post.Withdraw[ow])
		}
	}
	return vs
}

// non20ByteProvider: the exported content carries a provider address that is not 20 bytes long
// (binding providers and context provider lists are written to JSON as bech32 text)
// invalidUTF8Text: the state holds a definition with a free-text field that is not valid UTF-8
func invalidUTF8Text(s *Snapshot) bool {
	for _, d := range s.Defs {
		if !utf8.ValidString(d.Description) || !utf8.ValidString(d.AuthorDescription) {
			return true
		}
		for _, tg := range d.Tags {
			if !utf8.ValidString(tg) {
				return true
			}
		}
	}
	return false
}

func non20ByteProvider(s *Snapshot) bool {
	for _, b := range s.Binds {
		if len(b.Provider) != 20 {
			return true
		}
	}
	for _, rc := range s.Ctxs {
		for _, p := range rc.Providers {
			if len(p) != 20 {
				return true
			}
		}
	}
	return false
}

func trunc(s string, n int) string {
	if len(s) > n {
		return s[:n] + "..."
	}
	return s
}

// NewBareWorld: a pristine service store (fresh cache of the post-genesis chain state, private keeper)
func NewBareWorld() *World {
	app, base := sharedApp()
	cctx, _ := base.CacheContext()
	w := &World{app: app, cfg: defaultConfig()}
	w.k = keeper.NewKeeper(app.AppCodec(), app.GetKey(types.StoreKey), app.AccountKeeper, app.BankKeeper,
		harnessTokens{}, app.GetSubspace(types.ModuleName), authtypes.FeeCollectorName)
	w.ctx = cctx.WithBlockHeight(1)
	w.DepositAcc = hx(app.AccountKeeper.GetModuleAddress(types.DepositAccName))
	w.RequestAcc = hx(app.AccountKeeper.GetModuleAddress(types.RequestAccName))
	w.FeeCollector = hx(app.AccountKeeper.GetModuleAddress(authtypes.FeeCollectorName))
	return w
}

// checkBindingIndexes: the ownership indexes and price terms contain exactly what the bindings imply
func checkBindingIndexes(s *Snapshot) []string {
	var out []string
	wantOB, wantOP := map[string]bool{}, map[string]bool{}
	for _, bk := range sortedKeys(s.Binds) {
		b := s.Binds[bk]
		if ow, ok := s.Owner[hx(b.Provider)]; !ok || ow != hx(b.Owner) {
			out = append(out, fmt.Sprintf("provider %s of binding %s has recorded owner %q, binding owner %s", short(hx(b.Provider)), bk, short(ow), short(hx(b.Owner))))
		}
		wantOB[hx(b.Owner)+"|"+b.ServiceName+"|"+hx(b.Provider)] = true
		wantOP[hx(b.Owner)+hx(b.Provider)] = true
		pk := b.ServiceName + "\x00" + b.Provider.String()
		if sp, ok := s.Pricing[pk]; !ok {
			out = append(out, fmt.Sprintf("binding %s has no stored price terms", bk))
		} else if rp, err := ParseRefPricing(b.Pricing); err == nil {
			if why := pricingMatches(sp, rp); why != "" {
				out = append(out, fmt.Sprintf("stored price terms of %s do not correspond to its pricing: %s", bk, why))
			}
		}
	}
	gotOB := map[string]bool{}
	for _, e := range s.OwnerBinds {
		gotOB[e.Owner+"|"+e.Service+"|"+e.Provider] = true
	}
	if fmt.Sprint(sortedKeys(gotOB)) != fmt.Sprint(sortedKeys(wantOB)) {
		out = append(out, fmt.Sprintf("owner-binding index %v, bindings imply %v", sortedKeys(gotOB), sortedKeys(wantOB)))
	}
	if fmt.Sprint(sortedKeys(s.OwnerProvs)) != fmt.Sprint(sortedKeys(wantOP)) {
		out = append(out, fmt.Sprintf("owner-provider index %v, bindings imply %v", sortedKeys(s.OwnerProvs), sortedKeys(wantOP)))
	}
	if len(s.Pricing) != len(s.Binds) {
		out = append(out, fmt.Sprintf("%d price-term records for %d bindings", len(s.Pricing), len(s.Binds)))
	}
	sort.Strings(out)
	return out
}
