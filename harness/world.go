package harness

import (
	"bytes"
	"crypto/sha256"
	"encoding/binary"
	"fmt"
	"runtime/debug"
	"strings"
	"sync"
	"time"

	abci "github.com/tendermint/tendermint/abci/types"
	tmbytes "github.com/tendermint/tendermint/libs/bytes"
	tmproto "github.com/tendermint/tendermint/proto/tendermint/types"

	sdk "github.com/cosmos/cosmos-sdk/types"
	authtypes "github.com/cosmos/cosmos-sdk/x/auth/types"
	banktypes "github.com/cosmos/cosmos-sdk/x/bank/types"

	service "github.com/irismod/service"
	simapp "github.com/irismod/service/app"
	"github.com/irismod/service/keeper"
	"github.com/irismod/service/types"
)

const (
	VMod        = "vmod"   // the emulated consumer module
	VModHalf    = "vhalf"  // a module that registered a response callback only: it cannot own contexts
	ModSvcMod   = "vsvc"   // the emulated module owning a module service
	ModSvcName  = "modsvc" // the reserved service name
	StartTimeNs = int64(1600000000) * 1e9
)

// Config is the per-case configuration (parameters in force, funding, optional module service).
type Config struct {
	Tax           string           `json:"tax"`
	Slash         string           `json:"slash"`
	MaxTimeout    int64            `json:"max_timeout"`
	MinDeposit    *int64           `json:"min_deposit,omitempty"`
	Multiple      int64            `json:"multiple"`
	ArbitrationNs int64            `json:"arbitration_ns"`
	ComplaintNs   int64            `json:"complaint_ns"`
	Funding       map[string]int64 `json:"funding"`
	ModSvc        *ModSvcCfg       `json:"mod_svc,omitempty"`
	// Reactive: the emulated consumer module reacts to the "cannot pay" notification by killing its
	// (repeated) context from inside the state callback, as a real host module may do
	Reactive bool `json:"reactive_module,omitempty"`
	// StartHeight: height of the first block of the history (0 = 1). Heights appear big-endian in queue
	// keys and request ids: histories also start just below a byte boundary (250, 65530, 2^32-6)
	StartHeight int64 `json:"start_height,omitempty"`
	// ReactResp: the emulated consumer module reacts to a batch's responses by killing ("kill") or
	// pausing ("pause") its (repeated, running) context from inside the response callback - "enough
	// values collected" - through the keeper API, as a host module may do
	ReactResp string `json:"react_in_response_callback,omitempty"`
	// ReactSiblings: on the "cannot pay" notification the module also kills every other running repeated
	// context it owns ("this consumer is out of money: stop all its feeds")
	ReactSiblings bool `json:"reactive_module_kills_siblings,omitempty"`
	// BaseDenom: the module's base denomination parameter ("" = "stake", the only coin that exists in
	// the harness's bank); changed only by a governance parameter change during the history
	BaseDenom string `json:"base_denom,omitempty"`
	// ExchangeRate: when set, the host registers the exchange-rate service the module consults for
	// prices quoted in another token than the base denomination; it answers every pair with this rate
	ExchangeRate string `json:"exchange_rate,omitempty"`
	// FundingPoint: balances of the second coin ("point"). Only the cases of the invariant-only
	// properties (C01, C11, C16, C20) that let governance move the base denomination have any: there
	// deposits, fees and earnings exist in two denominations after the change
	FundingPoint map[string]int64 `json:"funding_point,omitempty"`
}

// harnessTokens is the token registry of the emulated chain: the token "kstake" whose minimum
// unit is "stake" (scale 3; "stake" is the coin every account of the harness holds, and like a
// real registry this one finds the token by either name), and "point", its own minimum unit,
// which nobody holds.
type harnessTokens struct{}

func (harnessTokens) GetToken(ctx sdk.Context, denom string) (types.TokenI, error) {
	switch denom {
	case "stake", "kstake":
		return types.MockToken{Symbol: "kstake", MinUnit: "stake", Scale: 3}, nil
	case "point":
		return types.MockToken{Symbol: "point", MinUnit: "point", Scale: 0}, nil
	}
	return nil, fmt.Errorf("token %s does not exist", denom)
}

func (c Config) baseDenom() string {
	if c.BaseDenom == "" {
		return "stake"
	}
	return c.BaseDenom
}

type ModOutcome struct {
	Result string `json:"result"`
	Output string `json:"output"`
	Class  string `json:"class"` // valid | invalid | none
}

type ModSvcCfg struct {
	Provider string       `json:"provider"`
	Owner    string       `json:"owner"`
	Pricing  string       `json:"pricing"`
	Deposit  int64        `json:"deposit"`
	QoS      uint64       `json:"qos"`
	Script   []ModOutcome `json:"script"`
}

// CallbackRec records one invocation of a callback of the emulated consumer module.
type CallbackRec struct {
	Kind    string   `json:"kind"` // "response" | "state"
	Ctx     string   `json:"ctx"`
	Outputs []string `json:"outputs,omitempty"`
	HasErr  bool     `json:"has_err,omitempty"`
	Cause   string   `json:"cause,omitempty"`
	// React / ReactOK: what the module did to its context from inside the callback, and whether the keeper accepted it
	React   string `json:"react,omitempty"`
	ReactOK bool   `json:"react_ok,omitempty"`
	// Killed: contexts the module killed (successfully) from inside this callback, with the batch counter each had then
	Killed []KilledCtx `json:"killed,omitempty"`
}

type KilledCtx struct {
	Ctx     string `json:"ctx"`
	Counter uint64 `json:"counter"`
}

// StepRec is everything observed about one executed step.
type StepRec struct {
	Index   int
	Action  Action
	Pre     *Snapshot
	Post    *Snapshot
	OK      bool   // every message succeeded (and was committed) / the block ended
	VBErr   string // stateless validation rejected the message (handler not run)
	Err     string // handler / keeper error
	Panic   string // recovered panic (message + stack head)
	Events  []abci.Event
	CtxIDs  []string // request contexts created by this step (hex)
	CBs     []CallbackRec
	ModOuts []ModOutcome // module-service outcomes consumed in this step
	Subs    []*StepRec   // committed multi-message tx: one record per message (pre/post inside the tx)
	InTx    bool         // this record is a message of a multi-message tx
	Height  int64
	TimeNs  int64
}

func (r *StepRec) Failed() bool { return !r.OK }

var (
	appOnce sync.Once
	theApp  *simapp.SimApp
	baseCtx sdk.Context
)

func sharedApp() (*simapp.SimApp, sdk.Context) {
	appOnce.Do(func() {
		theApp = simapp.Setup(false)
		baseCtx = theApp.BaseApp.NewContext(false, tmproto.Header{Height: 1, Time: time.Unix(0, StartTimeNs).UTC()})
	})
	return theApp, baseCtx
}

// World runs the real module the way a chain runs it.
type World struct {
	app     *simapp.SimApp
	k       keeper.Keeper
	handler sdk.Handler
	ctx     sdk.Context
	cfg     Config

	txCounter uint64
	cbs       []CallbackRec
	modIdx    int
	modOuts   []ModOutcome
	steps     int

	DepositAcc   string
	RequestAcc   string
	FeeCollector string

	// RebootEachStep: the node process restarts before every step (C20's second instance)
	RebootEachStep bool
}

func decOf(s string) sdk.Dec {
	d, err := sdk.NewDecFromStr(s)
	if err != nil {
		panic(err)
	}
	return d
}

// NewWorld builds a fresh world: private keeper, case-level cache of the post-genesis state,
// parameters, funding, host modules.
func NewWorld(cfg Config) *World {
	app, base := sharedApp()
	cctx, _ := base.CacheContext()
	w := &World{app: app, cfg: cfg}
	w.bootProcess()
	h0 := int64(1)
	if cfg.StartHeight > 0 {
		h0 = cfg.StartHeight
	}
	w.ctx = cctx.WithBlockHeight(h0).WithBlockTime(time.Unix(0, StartTimeNs).UTC())
	w.DepositAcc = hx(app.AccountKeeper.GetModuleAddress(types.DepositAccName))
	w.RequestAcc = hx(app.AccountKeeper.GetModuleAddress(types.RequestAccName))
	w.FeeCollector = hx(app.AccountKeeper.GetModuleAddress(authtypes.FeeCollectorName))

	var minDep sdk.Coins
	if cfg.MinDeposit != nil {
		minDep = sdk.NewCoins(sdk.NewCoin("stake", sdk.NewInt(*cfg.MinDeposit)))
	} else {
		minDep = sdk.Coins{}
	}
	params := types.NewParams(cfg.MaxTimeout, cfg.Multiple, minDep, decOf(cfg.Tax), decOf(cfg.Slash),
		time.Duration(cfg.ComplaintNs), time.Duration(cfg.ArbitrationNs), 4000, "stake")
	// the generated parameter sets are legal by construction (each value is one the per-parameter
	// validators of a governance change accept); whether the module's own whole-set validation agrees
	// is for the checks to find out (C19 validates every exported genesis), not for the harness to assume
	w.k.SetParams(w.ctx, params)

	// make sure the module accounts exist as accounts (as on a chain after genesis)
	app.AccountKeeper.GetModuleAccount(w.ctx, types.DepositAccName)
	app.AccountKeeper.GetModuleAccount(w.ctx, types.RequestAccName)
	app.AccountKeeper.GetModuleAccount(w.ctx, authtypes.FeeCollectorName)

	for _, a := range sortedKeys(cfg.Funding) {
		if amt := cfg.Funding[a]; amt > 0 {
			w.mint(addr(a), amt)
		}
	}

	for _, a := range sortedKeys(cfg.FundingPoint) {
		if amt := cfg.FundingPoint[a]; amt > 0 {
			w.mintCoins(addr(a), sdk.NewCoins(sdk.NewCoin("point", sdk.NewInt(amt))))
		}
	}

	if ms := cfg.ModSvc; ms != nil {
		prov := addr(ms.Provider)
		w.k.SetServiceDefinition(w.ctx, types.NewServiceDefinition(ModSvcName, "module service", nil, addr(ms.Owner), "",
			`{"input":{"type":"object"},"output":{"type":"object"}}`))
		dep := sdk.NewCoins(sdk.NewCoin("stake", sdk.NewInt(ms.Deposit)))
		b := types.NewServiceBinding(ModSvcName, prov, dep, ms.Pricing, ms.QoS, "{}", true, time.Time{}, addr(ms.Owner))
		if err := w.k.SetServiceBindingForGenesis(w.ctx, b); err != nil {
			panic("harness: module binding: " + err.Error())
		}
		// the deposit recorded on the binding is in custody, as for any binding
		w.mintToModule(types.DepositAccName, ms.Deposit)
	}
	return w
}

// bootProcess gives the world what a starting node process has: a new keeper value (empty process
// memory) over the same stores, its message handler, and the registrations the host's modules make
// at application start (callbacks, module services). NewWorld calls it once; a twin world of C20 calls
// it before every step, so that anything the module keeps in process memory instead of the store -
// and that therefore differs between a node that has run since genesis and one that was restarted -
// shows up as a divergence.
func (w *World) bootProcess() {
	app, cfg := w.app, w.cfg
	w.k = keeper.NewKeeper(app.AppCodec(), app.GetKey(types.StoreKey), app.AccountKeeper, app.BankKeeper,
		harnessTokens{}, app.GetSubspace(types.ModuleName), authtypes.FeeCollectorName)
	w.handler = service.NewHandler(w.k)
	// consumer module
	if err := w.k.RegisterResponseCallback(VMod, w.respCallback); err != nil {
		panic(err)
	}
	if err := w.k.RegisterStateCallback(VMod, w.stateCallback); err != nil {
		panic(err)
	}
	if err := w.k.RegisterResponseCallback(VModHalf, w.respCallback); err != nil {
		panic(err)
	}

	if cfg.ExchangeRate != "" {
		rate := cfg.ExchangeRate
		if err := w.k.RegisterModuleService(types.RegisterModuleName, &types.ModuleService{
			ServiceName: types.OraclePriceServiceName, Provider: types.OraclePriceServiceProvider,
			ReuquestService: func(ctx sdk.Context, input string) (string, string) {
				switch rate {
				case "unavailable": // the service is there but has no feed for the pair
					return `{"code":500,"message":"no feed"}`, ""
				case "malformed": // an answer that does not follow the service's output schema
					return `{"code":200,"message":""}`, `{"header":{},"body":{"price":"1"}}`
				}
				return `{"code":200,"message":""}`, `{"header":{},"body":{"rate":"` + rate + `"}}`
			},
		}); err != nil {
			panic(err)
		}
	}
	if ms := cfg.ModSvc; ms != nil {
		if err := w.k.RegisterModuleService(ModSvcMod, &types.ModuleService{
			ServiceName: ModSvcName, Provider: addr(ms.Provider), ReuquestService: w.modService,
		}); err != nil {
			panic(err)
		}
	}
}

func (w *World) mint(to sdk.AccAddress, amt int64) {
	coins := sdk.NewCoins(sdk.NewCoin("stake", sdk.NewInt(amt)))
	if _, err := w.app.BankKeeper.AddCoins(w.ctx, to, coins); err != nil {
		panic(err)
	}
	if w.app.AccountKeeper.GetAccount(w.ctx, to) == nil {
		w.app.AccountKeeper.SetAccount(w.ctx, w.app.AccountKeeper.NewAccountWithAddress(w.ctx, to))
	}
	sup := w.app.BankKeeper.GetSupply(w.ctx)
	sup.Inflate(coins)
	w.app.BankKeeper.SetSupply(w.ctx, sup)
}

func (w *World) mintToModule(name string, amt int64) {
	if amt <= 0 {
		return
	}
	w.mint(w.app.AccountKeeper.GetModuleAddress(name), amt)
}

func (w *World) respCallback(ctx sdk.Context, id tmbytes.HexBytes, outs []string, err error) {
	rec := CallbackRec{Kind: "response", Ctx: hx(id), Outputs: append([]string{}, outs...), HasErr: err != nil}
	if w.cfg.ReactResp != "" {
		if rc, found := w.k.GetRequestContext(ctx, id); found && rc.Repeated && rc.State == types.RUNNING {
			var rerr error
			switch w.cfg.ReactResp {
			case "kill":
				rerr = w.k.KillRequestContext(ctx, id, rc.Consumer)
			case "pause":
				rerr = w.k.PauseRequestContext(ctx, id, rc.Consumer)
			}
			rec.React, rec.ReactOK = w.cfg.ReactResp, rerr == nil
		} else if found && rc.Repeated && rc.State == types.PAUSED && w.cfg.ReactResp == "start" {
			// "resume once the batch is in": the module paused its context while the batch was in flight
			// and starts it again when it is told that the batch is over
			rerr := w.k.StartRequestContext(ctx, id, rc.Consumer)
			rec.React, rec.ReactOK = "start", rerr == nil
		}
	}
	w.cbs = append(w.cbs, rec)
}

func (w *World) stateCallback(ctx sdk.Context, id tmbytes.HexBytes, cause string) {
	rec := CallbackRec{Kind: "state", Ctx: hx(id), Cause: cause}
	kill := func(cid tmbytes.HexBytes) {
		if rc, found := w.k.GetRequestContext(ctx, cid); found && rc.Repeated && rc.ModuleName == VMod && rc.State != types.COMPLETED {
			if w.k.KillRequestContext(ctx, cid, rc.Consumer) == nil {
				rec.Killed = append(rec.Killed, KilledCtx{Ctx: hx(cid), Counter: rc.BatchCounter})
			}
		}
	}
	if w.cfg.Reactive {
		kill(id)
	}
	if w.cfg.ReactSiblings {
		var ids []tmbytes.HexBytes
		w.k.IterateRequestContexts(ctx, func(cid tmbytes.HexBytes, rc types.RequestContext) bool {
			if !bytes.Equal(cid, id) && rc.State == types.RUNNING {
				ids = append(ids, append(tmbytes.HexBytes{}, cid...))
			}
			return false
		})
		for _, cid := range ids {
			kill(cid)
		}
	}
	w.cbs = append(w.cbs, rec)
}

func (w *World) modService(ctx sdk.Context, input string) (string, string) {
	sc := w.cfg.ModSvc.Script
	o := sc[w.modIdx%len(sc)]
	w.modIdx++
	w.modOuts = append(w.modOuts, o)
	return o.Result, o.Output
}

func (w *World) Height() int64 { return w.ctx.BlockHeight() }
func (w *World) TimeNs() int64 { return w.ctx.BlockTime().UnixNano() }
func (w *World) Cfg() Config   { return w.cfg }

func (w *World) nextTxHash() []byte {
	w.txCounter++
	var b [10]byte
	copy(b[:], "tx")
	binary.BigEndian.PutUint64(b[2:], w.txCounter)
	h := sha256.Sum256(b[:])
	return h[:]
}

func panicString(r interface{}) string {
	st := string(debug.Stack())
	lines := strings.Split(st, "\n")
	// keep the frames below the panic call, trimmed
	keep := []string{}
	for _, l := range lines {
		if strings.Contains(l, "harness") {
			continue
		}
		if strings.Contains(l, "irismod/service") || strings.Contains(l, "/repo/") {
			l = strings.TrimSpace(l)
			if i := strings.Index(l, "("); i > 0 && !strings.HasPrefix(l, "/") {
				l = l[:i] + "()" // drop argument values (addresses differ between runs)
			}
			if i := strings.Index(l, " +0x"); i > 0 {
				l = l[:i]
			}
			keep = append(keep, l)
		}
		if len(keep) >= 8 {
			break
		}
	}
	return fmt.Sprintf("%v @ %s", r, strings.Join(keep, " | "))
}

// Step executes one action with chain semantics and records pre/post observations.
func (w *World) Step(a Action) *StepRec {
	if w.RebootEachStep {
		w.bootProcess()
	}
	rec := &StepRec{Index: w.steps, Action: a, Height: w.Height(), TimeNs: w.TimeNs()}
	w.steps++
	rec.Pre = w.SnapshotAt(w.ctx)
	cbMark, modMark, modIdxMark := len(w.cbs), len(w.modOuts), w.modIdx

	switch {
	case a.Kind == KEndBlock:
		w.endBlock(rec, a)
	case a.Kind == KRestart:
		w.restart(rec)
	case a.Kind == KSetParams:
		w.setParams(rec, a)
	case a.Kind == KTx:
		w.runTx(rec, a.Msgs)
	default:
		w.runTx(rec, []Action{a})
	}

	if !rec.OK && a.Kind != KEndBlock && a.Kind != KRestart && a.Kind != KSetParams {
		// the transaction left no trace: callbacks it made and module-service answers are void
		w.cbs = w.cbs[:cbMark]
		w.modOuts = w.modOuts[:modMark]
		w.modIdx = modIdxMark
	}
	rec.CBs = append([]CallbackRec{}, w.cbs[cbMark:]...)
	rec.ModOuts = append([]ModOutcome{}, w.modOuts[modMark:]...)
	rec.Post = w.SnapshotAt(w.ctx)
	if rec.OK && a.Kind == KTx {
		// a committed multi-message transaction is a sequence of single-message steps
		for _, sub := range rec.Subs {
			sub.Post.Height, sub.Pre.Height = rec.Height, rec.Height
		}
	} else {
		rec.Subs = nil
	}
	return rec
}

func (w *World) endBlock(rec *StepRec, a Action) {
	em := sdk.NewEventManager()
	cctx, write := w.ctx.CacheContext()
	cctx = cctx.WithEventManager(em)
	func() {
		defer func() {
			if r := recover(); r != nil {
				rec.Panic = panicString(r)
			}
		}()
		service.EndBlocker(cctx, w.k)
	}()
	if rec.Panic == "" {
		write()
		rec.OK = true
		rec.Events = em.ABCIEvents()
	}
	d := a.DeltaNs
	if d <= 0 {
		d = 1
	}
	if w.TimeNs()+d > StartTimeNs+yearsNs(200) || w.TimeNs()+d < w.TimeNs() {
		d = 5e9 // block time stays within what nanosecond timestamps can express
	}
	w.ctx = w.ctx.WithBlockHeight(w.Height() + 1).WithBlockTime(time.Unix(0, w.TimeNs()+d).UTC())
}

func paramsOf(cfg Config) types.Params {
	minDep := sdk.Coins{}
	if cfg.MinDeposit != nil {
		minDep = sdk.NewCoins(sdk.NewCoin("stake", sdk.NewInt(*cfg.MinDeposit)))
	}
	return types.NewParams(cfg.MaxTimeout, cfg.Multiple, minDep, decOf(cfg.Tax), decOf(cfg.Slash),
		time.Duration(cfg.ComplaintNs), time.Duration(cfg.ArbitrationNs), 4000, cfg.baseDenom())
}

// setParams applies a governance parameter change; the world's configuration (which the
// oracles read as "the parameters in force") follows.
func (w *World) setParams(rec *StepRec, a Action) {
	if a.Params == nil {
		rec.Err = "no params"
		return
	}
	n := w.cfg
	n.Tax, n.Slash, n.MaxTimeout, n.MinDeposit, n.Multiple = a.Params.Tax, a.Params.Slash, a.Params.MaxTimeout, a.Params.MinDeposit, a.Params.Multiple
	n.ArbitrationNs, n.ComplaintNs = a.Params.ArbitrationNs, a.Params.ComplaintNs
	n.BaseDenom = a.Params.BaseDenom
	p := paramsOf(n)
	if err := p.Validate(); err != nil {
		rec.Err = err.Error()
		return
	}
	// as a parameter-change proposal does it: written to the module's parameter subspace directly, not
	// through the module's keeper (which therefore must not hold a copy of its own)
	w.app.GetSubspace(types.ModuleName).SetParamSet(w.ctx, &p)
	w.cfg = n
	rec.OK = true
}

// restart models a chain restart from a zero-height export: escrow is paid out, the genesis is
// exported and validated, the service store is wiped and re-created from the exported genesis
// (bank state, parameters subspace and the keeper's registered callbacks / module services carry
// over, as they do when the new chain starts with the same application binary).
func (w *World) restart(rec *StepRec) {
	cctx, write := w.ctx.CacheContext()
	var err error
	func() {
		defer func() {
			if r := recover(); r != nil {
				rec.Panic = panicString(r)
			}
		}()
		service.PrepForZeroHeightGenesis(cctx, w.k)
		gs := service.ExportGenesis(cctx, w.k)
		if err = types.ValidateGenesis(*gs); err != nil {
			return
		}
		store := cctx.KVStore(w.app.GetKey(types.StoreKey))
		var keys [][]byte
		it := store.Iterator(nil, nil)
		for ; it.Valid(); it.Next() {
			keys = append(keys, append([]byte{}, it.Key()...))
		}
		it.Close()
		for _, k := range keys {
			store.Delete(k)
		}
		service.InitGenesis(cctx, w.k, *gs)
	}()
	if rec.Panic != "" {
		return
	}
	if err != nil {
		rec.Err = err.Error()
		return
	}
	write()
	rec.OK = true
}

// runTx runs the messages atomically: ValidateBasic on all, then the handlers in a nested cache
// which is committed only if every message succeeds (baseapp semantics).
func (w *World) runTx(rec *StepRec, msgs []Action) {
	if len(msgs) == 0 {
		rec.VBErr = "empty tx"
		return
	}
	built := make([]sdk.Msg, len(msgs))
	for i, m := range msgs {
		if m.IsMsg() {
			var vbErr error
			func() {
				defer func() {
					if r := recover(); r != nil {
						vbErr = fmt.Errorf("ValidateBasic panic: %v", r)
					}
				}()
				built[i] = m.Msg()
				vbErr = built[i].ValidateBasic()
			}()
			if vbErr != nil {
				rec.VBErr = vbErr.Error()
				return
			}
		}
	}
	hash := w.nextTxHash()
	cctx, write := w.ctx.CacheContext()
	var evs []abci.Event
	multi := len(msgs) > 1
	// a message may target the context an earlier message of this very transaction creates
	for i := range msgs {
		if r := msgs[i].TxRef; r != nil && *r >= 0 && *r < i {
			msgs[i].CtxID = hx(types.GenerateRequestContextID(append([]byte{}, hash...), int64(*r)))
			if msgs[i].IsMsg() {
				built[i] = msgs[i].Msg()
			}
		}
	}
	for i, m := range msgs {
		mctx := cctx.WithValue(types.TxHash, hash).WithValue(types.MsgIndex, int64(i))
		var err error
		var sub *StepRec
		cbMark, modMark := len(w.cbs), len(w.modOuts)
		nEv, nCtx := len(evs), len(rec.CtxIDs)
		if multi {
			sub = &StepRec{Index: rec.Index, Action: m, InTx: true, Height: rec.Height, TimeNs: rec.TimeNs, Pre: w.SnapshotAt(cctx)}
		}
		func() {
			defer func() {
				if r := recover(); r != nil {
					rec.Panic = panicString(r)
				}
			}()
			if m.IsMsg() {
				var res *sdk.Result
				res, err = w.handler(mctx, built[i])
				if err == nil && res != nil {
					evs = append(evs, res.Events...)
				}
			} else {
				em := sdk.NewEventManager()
				err = w.modCall(mctx.WithEventManager(em), m, rec)
				evs = append(evs, em.ABCIEvents()...)
			}
		}()
		if rec.Panic != "" {
			return
		}
		if err != nil {
			rec.Err = err.Error()
			return
		}
		if m.Kind == KCall {
			rec.CtxIDs = append(rec.CtxIDs, hx(types.GenerateRequestContextID(append([]byte{}, hash...), int64(i))))
		}
		if multi {
			sub.OK = true
			sub.Post = w.SnapshotAt(cctx)
			sub.Events = append([]abci.Event{}, evs[nEv:]...)
			sub.CBs = append([]CallbackRec{}, w.cbs[cbMark:]...)
			sub.ModOuts = append([]ModOutcome{}, w.modOuts[modMark:]...)
			sub.CtxIDs = append([]string{}, rec.CtxIDs[nCtx:]...)
			rec.Subs = append(rec.Subs, sub)
		}
	}
	write()
	rec.OK = true
	rec.Events = evs
}

func (w *World) modCall(ctx sdk.Context, m Action, rec *StepRec) error {
	switch m.Kind {
	case KModCreate:
		st := types.RUNNING
		if m.Desc == "paused" {
			st = types.PAUSED
		}
		id, err := w.k.CreateRequestContext(ctx, m.Service, addrs(m.Providers), addr(m.Signer), m.Input, m.capOf(),
			m.Timeout, m.Super, m.Repeated, m.Freq, m.Total, st, m.Threshold, m.moduleName())
		if err == nil {
			rec.CtxIDs = append(rec.CtxIDs, hx(id))
		}
		return err
	case KModPause:
		return w.k.PauseRequestContext(ctx, unhx(m.CtxID), addr(m.Signer))
	case KModStart:
		return w.k.StartRequestContext(ctx, unhx(m.CtxID), addr(m.Signer))
	case KModKill:
		return w.k.KillRequestContext(ctx, unhx(m.CtxID), addr(m.Signer))
	case KModUpdate:
		return w.k.UpdateRequestContext(ctx, unhx(m.CtxID), addrs(m.Providers), m.Threshold, m.capOf(), m.Timeout, m.Freq, m.Total, addr(m.Signer))
	}
	panic("harness: unknown action kind " + m.Kind)
}

var _ = banktypes.ModuleName
