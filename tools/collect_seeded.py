#!/usr/bin/env python3
"""Collects the changes produced by the independent sub-agents (/tmp/seed/<id>-out/m*) into
/verif/seeded/<id>-<m>/ after confirming, in a scratch worktree: the patch applies, the repo builds, the
baseline suite passes with it, the demonstration fails with it and passes without it."""
import glob, json, os, re, shutil, subprocess, sys

V = os.path.dirname(os.path.dirname(os.path.abspath(__file__)))


def sh(cmd, cwd=None):
    p = subprocess.run(cmd, cwd=cwd, shell=isinstance(cmd, str), stdout=subprocess.PIPE, stderr=subprocess.STDOUT, text=True)
    return p.returncode, p.stdout


def main():
    only = set(sys.argv[1:])
    d = "/tmp/verif-wt-collect"
    sh(["git", "-C", "/repo", "worktree", "remove", "--force", d])
    shutil.rmtree(d, ignore_errors=True)
    rc, out = sh(["git", "-C", "/repo", "worktree", "add", "--detach", d, "HEAD"])
    assert rc == 0, out
    try:
        root = os.environ.get("SEED_ROOT", "/tmp/seed")
        rnd = os.environ.get("SEED_ROUND", "")
        for src in sorted(glob.glob(root + "/C*-out/m*")):
            pid = os.path.basename(os.path.dirname(src))[:3]
            m = os.path.basename(src)
            if rnd == "2":
                m = {"m1": "m3", "m2": "m4"}.get(m, m)
            if rnd == "3":
                m = {"m1": "m5", "m2": "m6"}.get(m, m)
            if rnd == "4":
                m = {"m1": "m7", "m2": "m8"}.get(m, m)
            if rnd == "5":
                m = {"m1": "m9", "m2": "m10"}.get(m, m)
            if rnd == "6":
                m = {"m1": "m11", "m2": "m12"}.get(m, m)
            if rnd == "7":
                m = {"m1": "m13", "m2": "m14"}.get(m, m)
            sid = "%s-%s" % (pid, m)
            if only and sid not in only and pid not in only:
                continue
            patch = os.path.join(src, "patch.diff")
            demos = glob.glob(os.path.join(src, "*_test.go"))
            if not os.path.exists(patch) or os.path.getsize(patch) == 0 or not demos:
                print(sid, "incomplete (no patch or demo)")
                continue
            dst = os.path.join(V, "seeded", sid)
            if os.path.exists(os.path.join(dst, "meta.json")) and not only:
                continue
            demo = demos[0]
            pkg = re.search(r"^package (\w+)", open(demo).read(), re.M).group(1)
            sub = {"keeper_test": "keeper", "keeper": "keeper", "types_test": "types", "types": "types"}.get(pkg, "")
            sh("git checkout -- . && git clean -fdq", cwd=d)
            rc, out = sh(["git", "apply", patch], cwd=d)
            if rc != 0:
                print(sid, "patch does not apply:", out[-200:])
                continue
            touched = sh("git diff --name-only", cwd=d)[1].split()
            rc, out = sh("go build ./... && go test -vet=off -count=1 ./...", cwd=d)
            base_ok = rc == 0
            demo_dst = os.path.join(d, sub, os.path.basename(demo))
            shutil.copy(demo, demo_dst)
            tests = re.findall(r"^func (Test\w+)\(", open(demo).read(), re.M)
            run = "go test -vet=off -count=1 -run '^(%s)$' ./%s" % ("|".join(tests), sub if sub else ".")
            rc_with, out_with = sh(run, cwd=d)
            sh(["git", "apply", "-R", patch], cwd=d)
            rc_without, out_without = sh(run, cwd=d)
            ok = base_ok and rc_with != 0 and rc_without == 0
            print(sid, "baseline_ok=%s demo_with=%s demo_without=%s files=%s => %s" % (base_ok, rc_with, rc_without, touched, "KEEP" if ok else "REJECT"))
            if not ok:
                if not base_ok:
                    print("   baseline:", out[-300:].replace("\n", " | "))
                continue
            os.makedirs(dst, exist_ok=True)
            shutil.copy(patch, os.path.join(dst, "patch.diff"))
            shutil.copy(demo, os.path.join(dst, os.path.basename(demo)))
            notes = ""
            if os.path.exists(os.path.join(src, "notes.md")):
                shutil.copy(os.path.join(src, "notes.md"), os.path.join(dst, "notes.md"))
                notes = open(os.path.join(src, "notes.md")).read()
            meta = {
                "id": sid, "property": pid, "source": "independent sub-agent given only the property text and a scratch worktree",
                "files_changed": touched, "demo": {"file": os.path.basename(demo), "dir": sub or ".", "tests": tests},
                "confirmed": {"baseline_suite_passes_with_change": True, "demo_fails_with_change": True, "demo_passes_without_change": True,
                              "commands": ["git apply patch.diff", "go build ./... && go test -vet=off -count=1 ./...", run, "git apply -R patch.diff", run]},
                "needs_to_manifest": "see notes.md",
            }
            json.dump(meta, open(os.path.join(dst, "meta.json"), "w"), indent=1)
    finally:
        sh(["git", "-C", "/repo", "worktree", "remove", "--force", d])
        shutil.rmtree(d, ignore_errors=True)


if __name__ == "__main__":
    main()
