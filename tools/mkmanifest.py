#!/usr/bin/env python3
"""Regenerates /verif/MANIFEST.json from the table below (run after adding a check)."""
import json, os
V = os.path.dirname(os.path.dirname(os.path.abspath(__file__)))
props = [json.loads(l) for l in open(os.path.join(V, "properties.jsonl"))]

HIST = "stateful property-based testing (rapid): generated histories of messages / module-API calls / block ends run against the real keeper+handler+EndBlocker; "
CLAIMED = {
 "C01": ("5 C01", HIST + "invariant oracle over a raw store scan + bank balances after every step"),
 "C02": ("5 C02", HIST + "exact per-step balance-delta ledger against a reference model of settlements"),
 "C03": ("5 C03", HIST + "custody invariant + per-step deposit transition rules"),
 "C04": ("5 C04", HIST + "reference computation of expected slashes (amounts, burns, events, auto-disable) per step"),
 "C05": ("5 C05", HIST + "wrong-signer generation; success-implies-rightful-party and debit-set oracles"),
 "C06": ("5 C06", HIST + "reference eligibility filter from pricing text, outcome classification per due context"),
 "C07": ("5 C07", HIST + "exact-rational reference price from the published pricing text; volume model"),
 "C08": ("5 C08", HIST + "accept-iff model of pending requests (succeeds iff pending, by designated provider, up to expiry block)"),
 "C09": ("5 C09", HIST + "lifecycle state-machine transition oracle per context per step, with an emulated owning module that reacts (kill / pause / resume) from inside its callbacks; counter and solvency rules from the eligibility reference model"),
 "C10": ("5 C10", HIST + "batch-height tracker: first batch, cadence, total, no overlap"),
 "C11": ("5 C11", HIST + "queue/index/pending-marker invariant over the raw scan after every step"),
 "C12": ("5 C12", HIST + "batch bookkeeping model and recording callbacks of an emulated consumer module"),
 "C13": ("5 C13", HIST + "owner/provider earnings invariant and exact withdrawal accounting incl. prefix-related addresses; plus stateless property-based checks (rapid) of one withdrawal in generated keeper-level states holding earnings in two denominations"),
 "C14": ("5 C14", HIST + "minimum-deposit invariant recomputed from the pricing text"),
 "C15": ("5 C15", HIST + "definition/binding/index stability invariants + listing differential against the raw scan"),
 "C16": ("5 C16", HIST + "orphan-freedom invariant and finished-context removal rule after every block end"),
 "C17": ("5 C17", HIST + "then generated queries: gRPC vs ground truth from the raw scan, legacy querier vs gRPC (differential); malformed identifiers and byte-run-together arguments must be answered with nothing"),
 "C18": ("5 C18", "stateless property-based round-trip / injectivity / prefix-scan-exactness checks over generated IDs, names and addresses (rapid; native go fuzzing in the thorough tier) + in generated histories: lookup of every request through its issue event (at issue and again later) and differential of the module's own scan functions against the raw store on every committed state"),
 "C19": ("5 C19", HIST + "then zero-height preparation, export, validate, JSON round trip, import into a pristine store, re-export (round-trip oracle)"),
 "C20": ("5 C20", HIST + "every history executed in independent keeper instances with digest comparison after each step; one of them restarting its process (fresh keeper) before every step; recovered panics are failures; boundary-shaped messages incl. prices and promotion times at the limits of the number and calendar types"),
}
NOT_YET = {}

checks, na = [], []
for p in props:
    pid = p["id"]
    if pid in CLAIMED and os.environ.get("ONLY", pid + ",").find(pid) >= 0 and pid not in os.environ.get("SKIP", "").split(","):
        ref, tech = CLAIMED[pid]
        checks.append({
            "property_id": pid,
            "quick_cmd": "./check %s --tier quick" % pid,
            "thorough_cmd": "./check %s --tier thorough" % pid,
            "evidence_file": "/verif/evidence/%s.json" % pid,
            "replay_cmd_template": "./check %s --replay {path}" % pid,
            "engine": "harness",
            "level_claimed": {"category": "exploration",
                              "text": "generated-input search (property-based testing / fuzzing) against an explicit oracle; a green run means no counterexample among the generated cases counted in the evidence file, not absence of violations",
                              "design_ref": "DESIGN.md section " + ref},
            "level_note": "trusted: proto codec, bank module, the harness's key parsers and reference model; assumes baseapp tx atomicity, 20-byte signers, amounts within int64 in histories, the token registry and exchange rates of DESIGN.md section 4.7 / 4.10",
            "technique": tech,
        })
    else:
        na.append({"property_id": pid, "reason": NOT_YET.get(pid, "check under construction; not claimed yet")})

m = {
 "version": 1,
 "setup_cmd": "./tools/setup.sh",
 "hooks": {"guard": "verif", "enable": "checks build with `go test -tags verif`; no source hook in /repo is needed (everything is reachable through exported API and the store key)",
           "baseline_off_cmd": "cd /repo && go test -vet=off -count=1 ./...", "source_commits": [], "add_only": True},
 "engines": [{"name": "harness", "path": "/verif/harness", "serves_properties": [c["property_id"] for c in checks],
              "kind_free_text": "Go test module (pgregory.net/rapid v1.3.0 + native go fuzzing) driving the real module through simapp; driver /verif/check shards by seed over 16 processes"}],
 "checks": checks,
 "notes": "Exit codes: 0 held, 1 violation (VIOLATION property=<id> replay=<path>), 2 inconclusive. Known findings: /verif/known_findings.json. Regression replays: /verif/regress/<id>/.",
 "not_applicable": na,
}
json.dump(m, open(os.path.join(V, "MANIFEST.json"), "w"), indent=1)
print("claimed:", [c["property_id"] for c in checks], "not claimed:", [x["property_id"] for x in na])
