#!/usr/bin/env python3
"""Creates tools/mutants/<name>.diff from the table below: each mutant is a textual replacement applied
to a scratch worktree of /repo HEAD; it is kept only if it builds and passes the baseline suite.
First line of each diff file: '# <properties expected to catch it>: <description>'."""
import os, shutil, subprocess, sys

V = os.path.dirname(os.path.dirname(os.path.abspath(__file__)))
OUT = os.path.join(V, "tools", "mutants")

M = [
 ("m01_skip_tax_transfer", "C01 C02", "AddEarnedFee keeps the tax in escrow", "keeper/fees.go",
  "\tif err := k.bankKeeper.SendCoinsFromModuleToModule(ctx, types.RequestAccName, k.feeCollectorName, taxCoins); err != nil {\n\t\treturn err\n\t}\n", ""),
 ("m02_refund_provider_at_expiry", "C02", "expiry refunds the provider instead of the consumer", "abci.go",
  "_ = k.RefundServiceFee(ctx, request.Consumer, request.ServiceFee)", "_ = k.RefundServiceFee(ctx, request.Provider, request.ServiceFee)"),
 ("m03_drop_active_check", "C02 C08", "AddResponse no longer requires the request to be pending", "keeper/invocation.go",
  "\tif !k.IsRequestActive(ctx, requestID) {\n\t\treturn request, response, sdkerrors.Wrap(types.ErrInvalidResponse, \"request is not active\")\n\t}\n", ""),
 ("m04_no_refund_at_expiry", "C01 C02", "expired requests are not refunded", "abci.go",
  "\t\t\t_ = k.RefundServiceFee(ctx, request.Consumer, request.ServiceFee)\n", ""),
 ("m05_tax_rounded_up", "C02", "tax is rounded up instead of truncated", "keeper/fees.go",
  "taxAmount := sdk.NewDecFromInt(coin.Amount).Mul(taxRate).TruncateInt()", "taxAmount := sdk.NewDecFromInt(coin.Amount).Mul(taxRate).Ceil().TruncateInt()"),
 ("m06_refund_ignores_complaint_period", "C03", "refundable time omits the complaint period", "keeper/binding.go",
  "refundableTime := binding.DisabledTime.Add(k.ArbitrationTimeLimit(ctx)).Add(k.ComplaintRetrospect(ctx))", "refundableTime := binding.DisabledTime.Add(k.ArbitrationTimeLimit(ctx))"),
 ("m07_refund_keeps_deposit_record", "C03", "refund does not zero the recorded deposit", "keeper/binding.go",
  "\tbinding.Deposit = sdk.Coins{}\n\tk.SetServiceBinding(ctx, binding)\n\n\treturn nil\n}\n\n// RefundDeposits", "\treturn nil\n}\n\n// RefundDeposits"),
 ("m08_refund_one_ns_early", "C03", "refund allowed one nanosecond before the refundable instant", "keeper/binding.go",
  "if currentTime.Before(refundableTime) {", "if currentTime.Add(1).Before(refundableTime) {"),
 ("m09_slash_without_burn", "C03 C04", "slash reduces the record but does not burn", "keeper/invocation.go",
  "\tif err := k.bankKeeper.BurnCoins(ctx, types.DepositAccName, slashedCoins); err != nil {\n\t\treturn err\n\t}\n", ""),
 ("m10_no_slash_at_expiry", "C04", "timeouts are not slashed", "abci.go",
  "\t\t\t_ = k.Slash(ctx, requestID)\n", ""),
 ("m11_slash_super_mode", "C04", "super-mode timeouts are slashed too", "abci.go",
  "\t\tif !request.SuperMode {\n\t\t\t_ = k.Slash(ctx, requestID)\n", "\t\t_ = k.Slash(ctx, requestID)\n\t\tif !request.SuperMode {\n"),
 ("m12_slash_disables_at_equal", "C04", "slash disables when the deposit equals the minimum", "keeper/invocation.go",
  "\t\tif !binding.Deposit.IsAllGTE(minDeposit) {\n\t\t\tbinding.Available = false\n\t\t\tbinding.DisabledTime = ctx.BlockHeader().Time", "\t\tif !binding.Deposit.IsAllGT(minDeposit) {\n\t\t\tbinding.Available = false\n\t\t\tbinding.DisabledTime = ctx.BlockHeader().Time"),
 ("m13_slash_no_disabled_time", "C04", "slash disables without recording the time", "keeper/invocation.go",
  "\t\t\tbinding.Available = false\n\t\t\tbinding.DisabledTime = ctx.BlockHeader().Time\n\t\t}\n\t}\n\n\tk.SetServiceBinding(ctx, binding)\n\n\tctx.EventManager", "\t\t\tbinding.Available = false\n\t\t}\n\t}\n\n\tk.SetServiceBinding(ctx, binding)\n\n\tctx.EventManager"),
 ("m14_disable_without_owner_check", "C05", "anyone may disable a binding", "keeper/binding.go",
  "\tif !owner.Equals(binding.Owner) {\n\t\treturn sdkerrors.Wrap(types.ErrNotAuthorized, \"owner not matching\")\n\t}\n\n\tif !binding.Available {\n\t\treturn sdkerrors.Wrap(types.ErrServiceBindingUnavailable, \"\")", "\tif !binding.Available {\n\t\treturn sdkerrors.Wrap(types.ErrServiceBindingUnavailable, \"\")"),
 ("m15_pause_msg_on_module_ctx", "C05", "pause message allowed on module contexts", "handler.go",
  "func handleMsgPauseRequestContext(ctx sdk.Context, k keeper.Keeper, msg *types.MsgPauseRequestContext) (*sdk.Result, error) {\n\tif err := k.CheckAuthority(ctx, msg.Consumer, msg.RequestContextId, true)", "func handleMsgPauseRequestContext(ctx sdk.Context, k keeper.Keeper, msg *types.MsgPauseRequestContext) (*sdk.Result, error) {\n\tif err := k.CheckAuthority(ctx, msg.Consumer, msg.RequestContextId, false)"),
 ("m16_respond_by_anyone", "C05 C08", "response accepted from any account", "keeper/invocation.go",
  "\tif !provider.Equals(request.Provider) {\n\t\treturn request, response, sdkerrors.Wrap(types.ErrInvalidResponse, \"provider does not match\")\n\t}\n", ""),
 ("m17_bind_reserved_service", "C05", "module-reserved services can be bound", "handler.go",
  "\tif _, _, found := k.GetModuleServiceByServiceName(msg.ServiceName); found {\n\t\treturn nil, sdkerrors.Wrapf(types.ErrBindModuleService, \"module service %s\", msg.ServiceName)\n\t}\n", ""),
 ("m18_filter_ignores_availability", "C06", "unavailable bindings receive requests", "keeper/invocation.go",
  "\t\tif found && binding.Available {\n\t\t\tif binding.QoS <= uint64(timeout) {", "\t\tif found {\n\t\t\tif binding.QoS <= uint64(timeout) {"),
 ("m19_filter_qos_strict", "C06", "QoS equal to the timeout is excluded", "keeper/invocation.go",
  "if binding.QoS <= uint64(timeout) {", "if binding.QoS < uint64(timeout) {"),
 ("m20_filter_cap_vs_base_price", "C06", "fee cap compared with the undiscounted base price", "keeper/invocation.go",
  "\t\t\t\tif price.IsAllLTE(serviceFeeCap) {", "\t\t\t\tif k.GetPricing(ctx, serviceName, provider).Price.IsAllLTE(serviceFeeCap) {"),
 ("m21_time_window_end_inclusive", "C07", "time promotion applies at its end instant", "types/binding.go",
  "if !time.Before(p.StartTime) && time.Before(p.EndTime) {", "if !time.Before(p.StartTime) && !time.After(p.EndTime) {"),
 ("m22_volume_threshold_off_by_one", "C07", "volume promotion needs one more response", "types/binding.go",
  "\t\tif volume < p.Volume {", "\t\tif volume <= p.Volume {"),
 ("m23_no_min_one_clamp", "C07", "price below one unit is not raised to one (both price functions)", "keeper/invocation.go",
  "\t// set to 1 if price < 1\n\tif price.LT(sdk.OneDec()) {\n\t\tprice = sdk.OneDec()\n\t}\n", "",
  [("keeper/oracle_price.go", "\tif realPrice.LT(sdk.OneDec()) {\n\t\trealPrice = sdk.OneDec()\n\t}\n", "")]),
 ("m24_volume_not_counted", "C07", "accepted responses do not move the volume", "keeper/invocation.go",
  "\tk.IncreaseRequestVolume(ctx, request.Consumer, request.ServiceName, provider)\n", ""),
 ("m25_batch_expires_one_block_early", "C08 C11", "batch expiry queued at h+timeout-1", "abci.go",
  "k.AddRequestBatchExpiration(ctx, requestContextID, ctx.BlockHeight()+requestContext.Timeout)", "k.AddRequestBatchExpiration(ctx, requestContextID, ctx.BlockHeight()+requestContext.Timeout-1)"),
 ("m26_markers_kept_at_expiry", "C08 C16", "pending markers survive the expiry", "abci.go",
  "\t\tk.DeleteActiveRequest(ctx, request.ServiceName, request.Provider, request.ExpirationHeight, requestID)\n", ""),
 ("m27_start_from_any_state", "C09", "start accepted for a running context", "keeper/invocation.go",
  "\tif requestContext.State != types.PAUSED {\n\t\treturn types.ErrRequestContextNotPaused\n\t}\n", "\tif requestContext.State == types.COMPLETED {\n\t\treturn types.ErrRequestContextNotPaused\n\t}\n"),
 ("m28_pause_one_shot", "C09", "one-shot contexts can be paused", "keeper/invocation.go",
  "\tif !requestContext.Repeated {\n\t\treturn types.ErrRequestContextNonRepeated\n\t}\n\n\tif requestContext.State != types.RUNNING {", "\tif requestContext.State != types.RUNNING {"),
 ("m29_update_completed", "C09", "completed contexts can be updated", "keeper/invocation.go",
  "\tif requestContext.State == types.COMPLETED {\n\t\treturn types.ErrRequestContextCompleted\n\t}\n", ""),
 ("m30_skip_counts_twice", "C09 C10 C12", "a skipped batch advances the counter by two", "keeper/invocation.go",
  "func (k Keeper) SkipCurrentRequestBatch(ctx sdk.Context, requestContextID tmbytes.HexBytes, requestContext types.RequestContext) {\n\trequestContext.BatchCounter++", "func (k Keeper) SkipCurrentRequestBatch(ctx sdk.Context, requestContextID tmbytes.HexBytes, requestContext types.RequestContext) {\n\trequestContext.BatchCounter += 2"),
 ("m31_requeue_at_expiry_plus_frequency", "C10", "next batch queued at expiry height + frequency", "abci.go",
  "k.AddNewRequestBatch(ctx, requestContextID, ctx.BlockHeight()-requestContext.Timeout+int64(requestContext.RepeatedFrequency))", "k.AddNewRequestBatch(ctx, requestContextID, ctx.BlockHeight()+int64(requestContext.RepeatedFrequency))"),
 ("m32_total_off_by_one", "C10", "one batch more than the total", "abci.go",
  "if requestContext.Repeated && (requestContext.RepeatedTotal < 0 || int64(requestContext.BatchCounter) < requestContext.RepeatedTotal) {", "if requestContext.Repeated && (requestContext.RepeatedTotal < 0 || int64(requestContext.BatchCounter) <= requestContext.RepeatedTotal) {",
  [("abci.go", "requestContext.RepeatedTotal > 0 && int64(requestContext.BatchCounter) >= requestContext.RepeatedTotal {", "requestContext.RepeatedTotal > 0 && int64(requestContext.BatchCounter) > requestContext.RepeatedTotal {")]),
 ("m33_skip_without_expiry", "C11", "a skipped batch queues no expiry", "keeper/invocation.go",
  "\tk.SetRequestContext(ctx, requestContextID, requestContext)\n\tk.AddRequestBatchExpiration(ctx, requestContextID, ctx.BlockHeight()+requestContext.Timeout)\n}", "\tk.SetRequestContext(ctx, requestContextID, requestContext)\n}"),
 ("m34_start_without_requeue", "C11 C10", "start does not queue a batch", "keeper/invocation.go",
  "\tif !k.HasRequestBatchExpiration(ctx, requestContextID) && !k.HasNewRequestBatch(ctx, requestContextID) {\n\t\tk.AddNewRequestBatch(ctx, requestContextID, ctx.BlockHeight())\n\t}\n", ""),
 ("m35_callback_again_at_expiry", "C12", "completed batches are completed again at expiry", "abci.go",
  "\t\tif requestContext.BatchState != types.BATCHCOMPLETED {\n\t\t\tk.IterateActiveRequests", "\t\tif true {\n\t\t\tk.IterateActiveRequests"),
 ("m36_threshold_strict", "C12", "callback error unless outputs exceed the threshold", "keeper/invocation.go",
  "if len(outputs) >= int(requestContext.BatchResponseThreshold) {", "if len(outputs) > int(requestContext.BatchResponseThreshold) {"),
 ("m37_response_count_not_reset", "C12", "response count carried over to the next batch", "keeper/invocation.go",
  "\trequestContext.BatchState = types.BATCHRUNNING\n\trequestContext.BatchResponseCount = 0\n\trequestContext.BatchRequestCount = uint32(len(providers))", "\trequestContext.BatchState = types.BATCHRUNNING\n\trequestContext.BatchRequestCount = uint32(len(providers))"),
 ("m38_owner_total_not_reduced", "C13", "per-provider withdrawal leaves the owner total", "keeper/fees.go",
  "\t\t\tk.SetOwnerEarnedFees(ctx, owner, ownerEarnedFees.Sub(earnedFees))", "\t\t\tk.SetOwnerEarnedFees(ctx, owner, ownerEarnedFees)"),
 ("m39_withdraw_to_owner", "C13", "withdrawals ignore the withdrawal address", "keeper/fees.go",
  "\twithdrawAddr := k.GetWithdrawAddress(ctx, owner)\n", "\twithdrawAddr := owner\n"),
 ("m40_enable_without_deposit_check", "C14", "enable does not check the minimum deposit", "keeper/binding.go",
  "\tminDeposit := k.getMinDeposit(ctx, k.GetPricing(ctx, serviceName, provider))\n\tif !binding.Deposit.IsAllGTE(minDeposit) {", "\tminDeposit := k.getMinDeposit(ctx, k.GetPricing(ctx, serviceName, provider))\n\tif false && !binding.Deposit.IsAllGTE(minDeposit) {"),
 ("m41_min_deposit_is_min", "C14", "minimum deposit takes the smaller of the two bounds", "keeper/binding.go",
  "\tif minDeposit.IsAllLT(minDepositParam) {", "\tif minDeposit.IsAllGT(minDepositParam) {"),
 ("m42_redefine_overwrites", "C15", "a second definition overwrites the first", "keeper/definition.go",
  "\tif _, found := k.GetServiceDefinition(ctx, name); found {\n\t\treturn sdkerrors.Wrap(types.ErrServiceDefinitionExists, name)", "\tif _, found := k.GetServiceDefinition(ctx, name); found && len(tags) > 10 {\n\t\treturn sdkerrors.Wrap(types.ErrServiceDefinitionExists, name)"),
 ("m43_bindings_subspace_no_separator", "C15 C17 C18", "bindings of a service listed by bare name prefix", "types/keys.go",
  "\treturn append(append(ServiceBindingKey, []byte(serviceName)...), EmptyByte...)", "\treturn append(ServiceBindingKey, []byte(serviceName)...)"),
 ("m44_no_clean_batch", "C16", "expired batches are not cleaned", "abci.go",
  "\t\tk.CleanBatch(ctx, requestContext, requestContextID)\n", ""),
 ("m45_clean_previous_batch", "C16", "cleaning targets the previous batch number", "keeper/state_change.go",
  "iterator := k.RequestsIteratorByReqCtx(ctx, requestContextID, requestContext.BatchCounter)", "iterator := k.RequestsIteratorByReqCtx(ctx, requestContextID, requestContext.BatchCounter-1)"),
 ("m46_legacy_bindings_ignore_owner", "C17", "legacy bindings query ignores the owner filter", "keeper/querier.go",
  "\tif params.Owner.Empty() {\n\t\titerator := k.ServiceBindingsIterator(ctx, params.ServiceName)", "\tif true {\n\t\titerator := k.ServiceBindingsIterator(ctx, params.ServiceName)"),
 ("m47_responses_of_all_batches", "C17", "responses listed for the whole context, not the batch", "types/keys.go",
  "\treturn append(append(ResponseKey, requestContextID...), sdk.Uint64ToBigEndian(batchCounter)...)", "\treturn append(ResponseKey, requestContextID...)"),
 ("m48_request_index_from_one", "C18", "request IDs carry index+1", "keeper/invocation.go",
  "requestID := types.GenerateRequestID(requestContextID, requestContext.BatchCounter, ctx.BlockHeight(), int16(providerIndex))", "requestID := types.GenerateRequestID(requestContextID, requestContext.BatchCounter, ctx.BlockHeight(), int16(providerIndex+1))"),
 ("m49_active_subspace_no_separator", "C18 C17", "pending requests of a binding scanned without the trailing separator", "types/keys.go",
  "\treturn append(append(ActiveRequestKey, getStringsKey([]string{serviceName, provider.String()})...), EmptyByte...)", "\treturn append(ActiveRequestKey, getStringsKey([]string{serviceName, provider.String()})...)"),
 ("m50_prep_keeps_earned_fees", "C19", "zero-height preparation does not pay out earnings", "genesis.go",
  "\tif err := k.RefundEarnedFees(ctx); err != nil {\n\t\tpanic(fmt.Sprintf(\"failed to refund the earned fees: %s\", err))\n\t}\n", ""),
 ("m51_import_without_pricing", "C19", "imported bindings get no price terms", "keeper/binding.go",
  "\tk.SetPricing(ctx, svcBinding.ServiceName, svcBinding.Provider, pricing)\n\n\treturn nil\n}\n\n// UpdateServiceBinding", "\t_ = pricing\n\n\treturn nil\n}\n\n// UpdateServiceBinding"),
 ("m52_export_drops_withdraw_addresses", "C19", "export omits withdrawal addresses", "genesis.go",
  "\t\t\twithdrawAddresses[ownerAddress.String()] = withdrawAddress\n", "\t\t\t_ = withdrawAddress\n"),
 ("m53_state_write_in_map_order", "C20", "a store write depends on map iteration order", "abci.go",
  "\t\tstr := strings.Split(provider, \".\")\n", "\t\tk.SetWithdrawAddress(ctx, sdk.AccAddress(\"last-notified-provider\"), sdk.AccAddress(provider))\n\t\tstr := strings.Split(provider, \".\")\n"),
]


def sh(cmd, cwd=None):
    p = subprocess.run(cmd, cwd=cwd, shell=isinstance(cmd, str), stdout=subprocess.PIPE, stderr=subprocess.STDOUT, text=True)
    return p.returncode, p.stdout


def main():
    only = set(sys.argv[1:])
    os.makedirs(OUT, exist_ok=True)
    d = "/tmp/verif-wt-mkmut"
    sh(["git", "-C", "/repo", "worktree", "remove", "--force", d])
    shutil.rmtree(d, ignore_errors=True)
    rc, out = sh(["git", "-C", "/repo", "worktree", "add", "--detach", d, "HEAD"])
    assert rc == 0, out
    try:
        for m in M:
            name, props, desc, f, old, new = m[:6]
            extra = m[6] if len(m) > 6 else []
            if only and name not in only:
                continue
            sh("git checkout -- . && git clean -fdq", cwd=d)
            ok = True
            for (ff, o, n) in [(f, old, new)] + extra:
                p = os.path.join(d, ff)
                s = open(p).read()
                if s.count(o) != 1:
                    print(name, "SKIP: pattern occurs", s.count(o), "times in", ff)
                    ok = False
                    break
                open(p, "w").write(s.replace(o, n))
            if not ok:
                continue
            rc, out = sh("go build ./... 2>&1 | tail -5; test ${PIPESTATUS[0]} -eq 0", cwd=d)
            rc, out = sh(["bash", "-c", "go build ./... && go vet ./keeper ./types . >/dev/null 2>&1; go build ./... && go test -vet=off -count=1 ./... "], cwd=d)
            if rc != 0:
                print(name, "SKIP: does not build or baseline fails:", out[-300:].replace("\n", " | "))
                continue
            rc, diff = sh("git diff", cwd=d)
            open(os.path.join(OUT, name + ".diff"), "w").write("# %s: %s\n%s" % (props, desc, diff))
            print(name, "ok")
    finally:
        sh(["git", "-C", "/repo", "worktree", "remove", "--force", d])
        shutil.rmtree(d, ignore_errors=True)


if __name__ == "__main__":
    main()
