#!/bin/bash
# runs every registered check of one tier in sequence; prints one line per property
tier=${1:-quick}
cd "$(dirname "$0")/.."
for i in 01 02 03 04 05 06 07 08 09 10 11 12 13 14 15 16 17 18 19 20; do
  out=$(./check C$i --tier $tier 2>&1); rc=$?
  echo "C$i rc=$rc :: $(echo "$out" | grep -v '^KNOWN-FINDING' | tail -1 | cut -c1-200)"
  if [ $rc -ne 0 ]; then echo "$out" | tail -20; fi
done
