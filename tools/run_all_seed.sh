#!/bin/bash
# usage: tools/run_all_seed.sh <tier> <seed>  - like run_all.sh with a fixed VERIF_SEED, fuzz campaigns skipped
cd "$(dirname "$0")/.."
for i in 01 02 03 04 05 06 07 08 09 10 11 12 13 14 15 16 17 18 19 20; do
  out=$(VERIF_SEED=$2 VERIF_NO_FUZZ=1 ./check C$i --tier $1 2>&1); rc=$?
  echo "C$i rc=$rc :: $(echo "$out" | grep -v '^KNOWN-FINDING' | tail -1 | cut -c1-200)"
  if [ $rc -ne 0 ]; then echo "$out" | tail -20; fi
done
