#!/usr/bin/env python3
"""Sensitivity self-test of the checks.

  tools/selftest.py fixes            every "fix:" commit of /repo is reverted (alone) in a scratch worktree;
                                     the regression replay of that defect and the quick check of the listed
                                     properties must report a violation there
  tools/selftest.py mutants [names]  hand-written mutants (tools/mutants/*.diff, header lists the properties
                                     expected to catch them) are applied to a scratch worktree; each must
                                     build, pass the baseline suite, and be caught
  tools/selftest.py seeded [ids]     same for /verif/seeded/<id>/patch.diff (meta.json names the property)

Scratch worktrees live under /tmp and are removed afterwards. Results are appended to
/verif/selftest_results.json (summarised by hand in SELFTEST.md).
"""
import glob, json, os, re, shutil, subprocess, sys, time

V = os.path.dirname(os.path.dirname(os.path.abspath(__file__)))
REPO = "/repo"
RESULTS = os.path.join(V, "selftest_results.json")

FIXES = [
    # (commit subject prefix, id, properties whose quick check must catch the reverted fix, regress file)
    # since fix D15 the request records what GetExchangedPrice returns, so reverting D2 alone leaves charge and record
    # consistent (C01/C02 hold) and only the price rule itself is broken
    ("fix: charge the clamped price", "D2", ["C06", "C07"], "regress/C07/d2-zero-price-unclamped.json"),
    ("fix: reject a module service call when", "D13", ["C01"], "regress/C01/d13-modsvc-unavailable-binding.json"),
    ("fix: do not issue a batch after the fee", "D1", ["C01", "C02", "C06", "C09"], "regress/C01/d1-unpaid-batch-after-failed-deduction.json"),
    ("fix: a module service call issues exactly", "D9", ["C10", "C16"], None),
    ("fix: earned fees of a provider exclude", "D8", ["C13", "C01", "C17", "C18"], "regress/C01/d8-earned-fees-prefix-scan.json"),
    ("fix: never start a batch beyond", "D4", ["C10"], "regress/C10/d4-extra-batch-after-pause-in-last-batch.json"),
    ("fix: check the minimum deposit against", "D3", ["C14"], "regress/C14/d3-price-raise-with-stale-minimum.json"),
    ("fix: build the request context ID from a copy", "D12", ["C18"], "regress/C18/d12-context-id-aliases-tx-hash.json"),
    ("fix: validate withdrawal-address genesis keys", "D5", ["C19"], "regress/C19/d5-validate-genesis-withdraw-address-keys.json"),
    ("fix: read the lowercase context and batch state", "D11", ["C19"], "regress/C19/d11-enum-json-names.json"),
    ("fix: refund earned fees to the provider", "D6", ["C19"], "regress/C19/d6-refund-earned-fees-wrong-recipient.json"),
    ("fix: reject an empty deposit", "D7", ["C20"], "regress/C20/d7-empty-deposit-panics-handler.json"),
    ("fix: skip the batch when its providers cannot be priced", "D14", ["C11", "C10"], "regress/C11/d14-stuck-context-without-exchange-rate.json"),
    ("fix: record the exchanged price as the request fee", "D15", ["C01", "C02", "C06", "C07", "C19"], "regress/C01/d15-exchanged-price-charged-fee-one-recorded.json"),
    ("fix: one provider without an exchange rate", "D16", ["C06"], "regress/C06/d16-unpriceable-provider-blocks-batch.json"),
    ("fix: key an owner's earned fees by denom", "D17", ["C18"], "regress/C18/d17-owner-earnings-key-ignores-denom.json"),
    ("fix: drop an owner's earned-fee record of a denom", "D18", ["C13"], "regress/C13/d18-stale-owner-total-after-partial-withdrawal.json"),
    ("fix: cap the minimum deposit at the largest amount", "D19", ["C20"], "regress/C20/d19-price-times-multiple-overflows.json"),
    ("fix: MockToken.ToMinCoin returns an error", "D20", ["C20"], "regress/C20/d20-main-unit-price-overflows-conversion.json"),
    ("fix: the requests-of-a-batch and responses-of-a-batch queries", "D21", ["C17"], "regress/C17/d21-batch-queries-accept-a-short-context-id.json"),
    ("fix: keep what a module does to its context", "D22", ["C09"], "regress/C09/d22-kill-inside-response-callback-undone.json"),
    ("fix: the bindings-of-an-owner listing returns only", "D23", ["C17"], "regress/C17/d23-owner-listing-answers-for-another-owner-and-service.json"),
    ("fix: MockToken.ToMinCoin also rejects", "D24", ["C20"], "regress/C20/d24-decimal-price-beyond-the-integer-range.json"),
    ("fix: reject a time promotion outside", "D25", ["C20"], "regress/C20/d25-promotion-window-before-year-one.json"),
    ("fix: a withdrawal address must not be an account", "D26", ["C03", "C01"], "regress/C03/d26-earnings-withdrawn-into-the-deposit-account.json"),
]


def sh(cmd, cwd=None, env=None, timeout=3600):
    p = subprocess.run(cmd, cwd=cwd, env=env, shell=isinstance(cmd, str), stdout=subprocess.PIPE, stderr=subprocess.STDOUT, text=True, timeout=timeout)
    return p.returncode, p.stdout


def worktree(name):
    d = "/tmp/verif-wt-" + name
    sh(["git", "-C", REPO, "worktree", "remove", "--force", d])
    shutil.rmtree(d, ignore_errors=True)
    rc, out = sh(["git", "-C", REPO, "worktree", "add", "--detach", d, "HEAD"])
    if rc != 0:
        raise SystemExit(out)
    return d


def drop(d):
    sh(["git", "-C", REPO, "worktree", "remove", "--force", d])
    shutil.rmtree(d, ignore_errors=True)
    sh(["git", "-C", REPO, "worktree", "prune"])


def baseline(d):
    env = dict(os.environ, GOFLAGS="-mod=mod", GOPROXY="off", GOSUMDB="off")
    rc, out = sh("go build ./... && go test -vet=off -count=1 ./...", cwd=d, env=env)
    return rc == 0, out[-800:]


def run_check(d, prop, extra=None, seed="0"):
    env = dict(os.environ, VERIF_REPO=d, VERIF_SEED=seed)
    if not extra:
        env["VERIF_SKIP_REGRESS"] = "1"
    cmd = [os.path.join(V, "check"), prop] + (extra or ["--tier", "quick"])
    t0 = time.time()
    rc, out = sh(cmd, cwd=V, env=env)
    lines = [l for l in out.splitlines() if l.startswith("VIOLATION") or l.startswith("  shard") or l.startswith("OK ") or "REPLAY" in l]
    return rc, lines[:4], round(time.time() - t0, 1)


def save(rec):
    import fcntl
    with open(RESULTS + ".lock", "w") as lk:
        fcntl.flock(lk, fcntl.LOCK_EX)
        data = []
        if os.path.exists(RESULTS):
            data = json.load(open(RESULTS))
        data = [r for r in data if not (r["kind"] == rec["kind"] and r["id"] == rec["id"])]
        data.append(rec)
        data.sort(key=lambda r: (r["kind"], r["id"]))
        tmp = RESULTS + ".tmp%d" % os.getpid()
        json.dump(data, open(tmp, "w"), indent=1)
        os.replace(tmp, RESULTS)


def commit_of(prefix):
    rc, out = sh(["git", "-C", REPO, "log", "--format=%h %s"])
    for l in out.splitlines():
        h, s = l.split(" ", 1)
        if s.startswith(prefix):
            return h
    raise SystemExit("no commit with subject " + prefix)


def cmd_fixes(only):
    for prefix, did, props, reg in FIXES:
        if only and did not in only:
            continue
        h = commit_of(prefix)
        d = worktree("fix-" + did)
        try:
            rc, out = sh(["git", "revert", "--no-commit", h], cwd=d)
            if rc != 0:
                print(did, "revert failed", out)
                continue
            ok, tail = baseline(d)
            rec = {"kind": "reverted-fix", "id": did, "commit": h, "baseline_passes": ok, "replay": None, "checks": {}}
            if reg:
                rc, lines, wall = run_check(d, os.path.basename(os.path.dirname(reg)), ["--replay", os.path.join(V, reg)])
                rec["replay"] = {"file": reg, "exit": rc, "out": lines}
            for p in props:
                rc, lines, wall = run_check(d, p)
                rec["checks"][p] = {"exit": rc, "wall_s": wall, "out": lines[:2]}
                print(did, p, "exit", rc, wall, lines[:1], flush=True)
            save(rec)
        finally:
            drop(d)


def apply_and_test(kind, ident, patch, props, seeds=("0",)):
    d = worktree(kind + "-" + ident)
    try:
        rc, out = sh(["git", "apply", patch], cwd=d)
        if rc != 0:
            print(ident, "patch does not apply:", out)
            save({"kind": kind, "id": ident, "error": "patch does not apply: " + out[-300:]})
            return
        ok, tail = baseline(d)
        rec = {"kind": kind, "id": ident, "baseline_passes": ok, "checks": {}}
        if not ok:
            rec["baseline_tail"] = tail
        for p in props:
            for sd in seeds:
                rc, lines, wall = run_check(d, p, seed=sd)
                rec["checks"][p if sd == "0" else p + "@" + sd] = {"exit": rc, "wall_s": wall, "out": lines[:2]}
                print(ident, p, "seed", sd, "exit", rc, wall, lines[:1], flush=True)
                if rc == 1:
                    break
        save(rec)
    finally:
        drop(d)


def cmd_mutants(only):
    for f in sorted(glob.glob(os.path.join(V, "tools", "mutants", "*.diff"))):
        name = os.path.basename(f)[:-5]
        if only and name not in only:
            continue
        head = open(f).read().split("\n", 3)
        props = re.findall(r"C\d\d", head[0])
        apply_and_test("mutant", name, f, props)


def cmd_seeded(only):
    for mf in sorted(glob.glob(os.path.join(V, "seeded", "*", "meta.json"))):
        sid = os.path.basename(os.path.dirname(mf))
        if only and sid not in only:
            continue
        meta = json.load(open(mf))
        if meta.get("obsolete"):
            save({"kind": "seeded", "id": sid, "obsolete": meta["obsolete"]})
            continue
        props = meta.get("check_with") or [meta["property"]]
        apply_and_test("seeded", sid, os.path.join(os.path.dirname(mf), "patch.diff"), props, seeds=("0", "1", "2"))


def cmd_benign(only):
    """property-preserving changes (/verif/benign/*.diff): every check must stay green (exit 0), regression replays included"""
    allprops = ["C%02d" % i for i in range(1, 21)]
    if os.environ.get("BENIGN_PROPS"):  # re-run of the checks that changed since the last full run
        allprops = os.environ["BENIGN_PROPS"].split(",")
    for f in sorted(glob.glob(os.path.join(V, "benign", "*.diff"))):
        name = os.path.basename(f)[:-5]
        if only and name not in only:
            continue
        d = worktree("benign-" + name)
        try:
            rc, out = sh(["git", "apply", f], cwd=d)
            if rc != 0:
                save({"kind": "benign", "id": name, "error": "patch does not apply: " + out[-300:]})
                continue
            ok, tail = baseline(d)
            rec = {"kind": "benign", "id": name, "baseline_passes": ok, "checks": {}}
            if os.environ.get("BENIGN_PROPS") and os.path.exists(RESULTS):  # keep the earlier results of the other checks
                for old in json.load(open(RESULTS)):
                    if old.get("kind") == "benign" and old.get("id") == name:
                        rec["checks"] = dict(old.get("checks") or {})
            pre = os.path.join(V, ".build", "selftest-%s.test" % name)
            sh([os.path.join(V, "check"), "C01", "--build-only", pre], cwd=V, env=dict(os.environ, VERIF_REPO=d))
            for p in allprops:
                env = dict(os.environ, VERIF_REPO=d, VERIF_SEED="0", VERIF_PREBUILT=pre)
                t0 = time.time()
                rc, out = sh([os.path.join(V, "check"), p, "--tier", "quick"], cwd=V, env=env)
                lines = [l for l in out.splitlines() if l.startswith("VIOLATION") or l.startswith("  shard") or l.startswith("OK ")]
                rec["checks"][p] = {"exit": rc, "wall_s": round(time.time() - t0, 1), "out": lines[:2]}
                print(name, p, "exit", rc, lines[:1], flush=True)
            save(rec)
            try:
                os.remove(pre)
            except OSError:
                pass
        finally:
            drop(d)


if __name__ == "__main__":
    what = sys.argv[1]
    only = set(sys.argv[2:])
    {"fixes": cmd_fixes, "mutants": cmd_mutants, "seeded": cmd_seeded, "benign": cmd_benign}[what](only)
