#!/bin/sh
# Offline setup: warm the Go build cache for the harness test binary (built from /repo's tree).
set -e
export GOFLAGS=-mod=mod GOPROXY=off GOSUMDB=off GOTOOLCHAIN=local CGO_ENABLED=0
cd "$(dirname "$0")/../harness"
mkdir -p ../.build
go test -c -tags verif -o ../.build/setup.test . && rm -f ../.build/setup.test
echo setup ok
